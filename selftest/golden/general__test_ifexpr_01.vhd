library ieee;
use ieee.std_logic_1164.all;
use ieee.numeric_std.all;


entity test_if_expr is
  port (
    sw : in std_logic_vector(3 downto 0);
    ifexpr_bit : out std_logic;
    ifexpr_bitvector : out std_logic_vector(3 downto 0);
    ifexpr_signed : out signed(3 downto 0);
    ifexpr_unsigned : out unsigned(3 downto 0);
    ifexpr_bitvector_signal : out std_logic_vector(3 downto 0);
    option_a : in std_logic_vector(1 downto 0);
    option_b : in std_logic_vector(1 downto 0);
    choose_bit : out std_logic;
    choose_bit_2 : out std_logic;
    choose_bit_3 : out std_logic;
    choose_unsigned : out unsigned(3 downto 0);
    choose_unsigned_2 : out unsigned(3 downto 0);
    choose_unsigned_3 : out unsigned(3 downto 0);
    choose_pos_a : out unsigned(3 downto 0);
    choose_option : out std_logic_vector(1 downto 0);
    cond_call_bit : out std_logic;
    cond_call_bitvector : out std_logic_vector(3 downto 0);
    cond_call_signed : out signed(3 downto 0);
    cond_call_unsigned : out unsigned(3 downto 0);
    cond_call_bitvector_signal : out std_logic_vector(3 downto 0)
    );
end test_if_expr;


architecture arch_test_if_expr of test_if_expr is
  function cohdl_bool_to_std_logic(inp: boolean) return std_logic is
  begin
    if inp then
      return('1');
    else
      return('0');
    end if;
  end function cohdl_bool_to_std_logic;
  signal buffer_ifexpr_bit : std_logic;
  signal buffer_ifexpr_bitvector : std_logic_vector(3 downto 0);
  signal buffer_ifexpr_signed : signed(3 downto 0);
  signal buffer_ifexpr_unsigned : unsigned(3 downto 0);
  signal buffer_ifexpr_bitvector_signal : std_logic_vector(3 downto 0);
  signal buffer_choose_bit : std_logic;
  signal buffer_choose_bit_2 : std_logic;
  signal buffer_choose_bit_3 : std_logic;
  signal buffer_choose_unsigned : unsigned(3 downto 0);
  signal buffer_choose_unsigned_2 : unsigned(3 downto 0);
  signal buffer_choose_unsigned_3 : unsigned(3 downto 0);
  signal buffer_choose_pos_a : unsigned(3 downto 0);
  signal buffer_choose_option : std_logic_vector(1 downto 0);
  signal buffer_cond_call_bit : std_logic;
  signal buffer_cond_call_bitvector : std_logic_vector(3 downto 0);
  signal buffer_cond_call_signed : signed(3 downto 0);
  signal buffer_cond_call_unsigned : unsigned(3 downto 0);
  signal buffer_cond_call_bitvector_signal : std_logic_vector(3 downto 0);
  signal temp : boolean;
  signal temp1 : boolean;
  signal temp2 : std_logic;
  signal temp3 : boolean;
  signal temp4 : boolean;
  signal temp5 : std_logic_vector(3 downto 0);
  signal temp6 : boolean;
  signal temp7 : boolean;
  signal temp8 : std_logic_vector(3 downto 0);
  signal temp9 : std_logic_vector(3 downto 0);
  signal temp10 : boolean;
  signal temp11 : boolean;
  signal temp12 : std_logic_vector(3 downto 0);
  signal temp13 : boolean;
  signal temp14 : boolean;
  signal temp15 : std_logic_vector(3 downto 0);
  signal temp16 : boolean;
  signal temp17 : boolean;
  signal temp18 : unsigned(3 downto 0);
  signal temp19 : boolean;
  signal temp20 : boolean;
  signal temp21 : unsigned(3 downto 0);
  signal temp22 : boolean;
  signal temp23 : boolean;
  signal temp24 : signed(3 downto 0);
  signal temp25 : boolean;
  signal temp26 : boolean;
  signal temp27 : signed(3 downto 0);
  signal temp28 : boolean;
  signal temp29 : boolean;
  signal temp30 : signed(3 downto 0);
  signal temp31 : boolean;
  signal arg : std_logic;
  signal temp32 : boolean;
  signal temp33 : boolean;
  signal temp34 : boolean;
  signal temp35 : std_logic;
  signal temp36 : boolean;
  signal arg1 : std_logic;
  signal temp37 : boolean;
  signal temp38 : boolean;
  signal temp39 : boolean;
  signal temp40 : boolean;
  signal temp41 : std_logic;
  signal temp42 : boolean;
  signal temp43 : std_logic;
  signal temp44 : boolean;
  signal arg2 : std_logic;
  signal temp45 : boolean;
  signal temp46 : unsigned(3 downto 0);
  signal temp47 : boolean;
  signal temp48 : unsigned(3 downto 0);
  signal temp49 : boolean;
  signal temp50 : unsigned(3 downto 0);
  signal temp51 : boolean;
  signal temp52 : unsigned(3 downto 0);
  signal temp53 : boolean;
  signal temp54 : unsigned(3 downto 0);
  signal temp55 : boolean;
  signal temp56 : unsigned(3 downto 0);
  signal temp57 : boolean;
  signal temp58 : unsigned(3 downto 0);
  signal temp59 : boolean;
  signal temp60 : unsigned(3 downto 0);
  signal temp61 : std_logic;
  signal temp62 : std_logic;
  signal temp63 : std_logic;
  signal temp64 : std_logic;
  signal temp65 : boolean;
  signal temp66 : unsigned(3 downto 0);
  signal temp67 : boolean;
  signal temp68 : unsigned(3 downto 0);
  signal temp69 : boolean;
  signal temp70 : unsigned(3 downto 0);
  signal temp71 : boolean;
  signal temp72 : unsigned(3 downto 0);
  signal temp73 : std_logic_vector(1 downto 0);
  signal temp74 : boolean;
  signal temp75 : std_logic_vector(1 downto 0);
  signal temp76 : boolean;
  signal temp77 : std_logic_vector(1 downto 0);
  signal temp78 : boolean;
  signal temp79 : boolean;
  signal temp80 : unsigned(3 downto 0);
  signal temp81 : boolean;
  signal temp82 : unsigned(3 downto 0);
  signal temp83 : boolean;
  signal temp84 : unsigned(3 downto 0);
  signal temp85 : boolean;
  signal temp86 : boolean;
  signal temp87 : std_logic_vector(1 downto 0);
  signal temp88 : boolean;
  signal temp89 : boolean;
  signal temp90 : std_logic_vector(1 downto 0);
  signal temp91 : boolean;
  signal temp92 : boolean;
  signal temp93 : std_logic_vector(1 downto 0);
  signal temp94 : boolean;
  signal temp95 : boolean;
  signal temp96 : std_logic_vector(1 downto 0);
  signal temp97 : boolean;
  signal temp98 : std_logic_vector(1 downto 0);
  signal temp99 : boolean;
  signal temp100 : std_logic_vector(1 downto 0);
  signal temp101 : boolean;
  signal temp102 : std_logic_vector(1 downto 0);
  signal temp103 : boolean;
  signal temp104 : std_logic_vector(1 downto 0);
begin
  
  -- CONCURRENT BLOCK (buffer assignment)
  ifexpr_bit <= buffer_ifexpr_bit;
  ifexpr_bitvector <= buffer_ifexpr_bitvector;
  ifexpr_signed <= buffer_ifexpr_signed;
  ifexpr_unsigned <= buffer_ifexpr_unsigned;
  ifexpr_bitvector_signal <= buffer_ifexpr_bitvector_signal;
  choose_bit <= buffer_choose_bit;
  choose_bit_2 <= buffer_choose_bit_2;
  choose_bit_3 <= buffer_choose_bit_3;
  choose_unsigned <= buffer_choose_unsigned;
  choose_unsigned_2 <= buffer_choose_unsigned_2;
  choose_unsigned_3 <= buffer_choose_unsigned_3;
  choose_pos_a <= buffer_choose_pos_a;
  choose_option <= buffer_choose_option;
  cond_call_bit <= buffer_cond_call_bit;
  cond_call_bitvector <= buffer_cond_call_bitvector;
  cond_call_signed <= buffer_cond_call_signed;
  cond_call_unsigned <= buffer_cond_call_unsigned;
  cond_call_bitvector_signal <= buffer_cond_call_bitvector_signal;
  
  -- CONCURRENT BLOCK (logic_ifexpr)
  temp <= (sw(0) = sw(1));
  temp1 <= temp;
  with temp1 select temp2 <=
    '1' when true,
    '0' when others;
  buffer_ifexpr_bit <= temp2;
  temp3 <= (sw(1) = sw(2));
  temp4 <= temp3;
  with temp4 select temp5 <=
    "0001" when true,
    "0000" when others;
  temp6 <= (sw(0) = sw(1));
  temp7 <= temp6;
  with temp7 select temp8 <=
    "1000" when true,
    temp5 when others;
  buffer_ifexpr_bitvector <= temp8;
  temp9 <= not (sw);
  temp10 <= (sw(1) = sw(2));
  temp11 <= temp10;
  with temp11 select temp12 <=
    temp9 when true,
    "1111" when others;
  temp13 <= (sw(0) = sw(1));
  temp14 <= temp13;
  with temp14 select temp15 <=
    sw when true,
    temp12 when others;
  buffer_ifexpr_bitvector_signal <= temp15;
  temp16 <= (sw(1) = sw(2));
  temp17 <= temp16;
  with temp17 select temp18 <=
    unsigned'("0010") when true,
    unsigned'("0000") when others;
  temp19 <= (sw(0) = sw(1));
  temp20 <= temp19;
  with temp20 select temp21 <=
    unsigned'("0001") when true,
    temp18 when others;
  buffer_ifexpr_unsigned <= temp21;
  temp22 <= (sw(2) = sw(3));
  temp23 <= temp22;
  with temp23 select temp24 <=
    signed'("1101") when true,
    signed'("0000") when others;
  temp25 <= (sw(1) = sw(2));
  temp26 <= temp25;
  with temp26 select temp27 <=
    signed'("1110") when true,
    temp24 when others;
  temp28 <= (sw(0) = sw(1));
  temp29 <= temp28;
  with temp29 select temp30 <=
    signed'("1111") when true,
    temp27 when others;
  buffer_ifexpr_signed <= temp30;
  
  -- CONCURRENT BLOCK (logic_choose)
  temp31 <= sw(0) = '1';
  with temp31 select arg <=
    '1' when true,
    sw(2) when others;
  buffer_choose_bit <= arg;
  temp32 <= (std_logic_vector(sw(1 downto 0)) = option_a);
  temp33 <= (std_logic_vector(sw(1 downto 0)) = option_b);
  temp34 <= temp33;
  with temp34 select temp35 <=
    '0' when true,
    sw(2) when others;
  temp36 <= temp32;
  with temp36 select arg1 <=
    '1' when true,
    temp35 when others;
  buffer_choose_bit_2 <= arg1;
  temp37 <= (std_logic_vector(sw(1 downto 0)) = option_a);
  temp38 <= (std_logic_vector(sw(1 downto 0)) = option_b);
  temp39 <= (std_logic_vector(sw(2 downto 1)) = option_a);
  temp40 <= temp39;
  with temp40 select temp41 <=
    '1' when true,
    sw(2) when others;
  temp42 <= temp38;
  with temp42 select temp43 <=
    '0' when true,
    temp41 when others;
  temp44 <= temp37;
  with temp44 select arg2 <=
    '1' when true,
    temp43 when others;
  buffer_choose_bit_3 <= arg2;
  temp45 <= sw(3) = '1';
  with temp45 select temp46 <=
    unsigned'("0100") when true,
    unsigned'("0000") when others;
  temp47 <= sw(2) = '1';
  with temp47 select temp48 <=
    unsigned'("0011") when true,
    temp46 when others;
  temp49 <= sw(1) = '1';
  with temp49 select temp50 <=
    unsigned'("0010") when true,
    temp48 when others;
  temp51 <= sw(0) = '1';
  with temp51 select temp52 <=
    unsigned'("0001") when true,
    temp50 when others;
  buffer_choose_unsigned <= temp52;
  temp53 <= sw(3) = '1';
  with temp53 select temp54 <=
    unsigned'("0100") when true,
    unsigned'("0000") when others;
  temp55 <= sw(2) = '1';
  with temp55 select temp56 <=
    unsigned'("0011") when true,
    temp54 when others;
  temp57 <= sw(1) = '1';
  with temp57 select temp58 <=
    unsigned'("0010") when true,
    temp56 when others;
  temp59 <= sw(0) = '1';
  with temp59 select temp60 <=
    unsigned'("0001") when true,
    temp58 when others;
  buffer_choose_unsigned_2 <= temp60;
  temp61 <= not (sw(0));
  temp62 <= not (sw(1));
  temp63 <= not (sw(2));
  temp64 <= not (sw(3));
  temp65 <= temp64 = '1';
  with temp65 select temp66 <=
    unsigned'("0100") when true,
    unsigned'("0000") when others;
  temp67 <= temp63 = '1';
  with temp67 select temp68 <=
    unsigned'("0011") when true,
    temp66 when others;
  temp69 <= temp62 = '1';
  with temp69 select temp70 <=
    unsigned'("0010") when true,
    temp68 when others;
  temp71 <= temp61 = '1';
  with temp71 select temp72 <=
    unsigned'("0001") when true,
    temp70 when others;
  buffer_choose_unsigned_3 <= temp72;
  temp73 <= (sw(1)) & (sw(0));
  temp74 <= (option_a = temp73);
  temp75 <= (sw(2)) & (sw(1));
  temp76 <= (option_a = temp75);
  temp77 <= (sw(3)) & (sw(2));
  temp78 <= (option_a = temp77);
  temp79 <= temp78;
  with temp79 select temp80 <=
    unsigned'("0011") when true,
    unsigned'("0000") when others;
  temp81 <= temp76;
  with temp81 select temp82 <=
    unsigned'("0010") when true,
    temp80 when others;
  temp83 <= temp74;
  with temp83 select temp84 <=
    unsigned'("0001") when true,
    temp82 when others;
  buffer_choose_pos_a <= temp84;
  temp85 <= (sw(0) = sw(0));
  temp86 <= temp85;
  with temp86 select temp87 <=
    option_a when true,
    option_b when others;
  temp88 <= (sw(0) = sw(1));
  temp89 <= temp88;
  with temp89 select temp90 <=
    option_a when true,
    option_b when others;
  temp91 <= (sw(0) = sw(2));
  temp92 <= temp91;
  with temp92 select temp93 <=
    option_a when true,
    option_b when others;
  temp94 <= (sw(0) = sw(3));
  temp95 <= temp94;
  with temp95 select temp96 <=
    option_a when true,
    option_b when others;
  temp97 <= sw(3) = '1';
  with temp97 select temp98 <=
    temp96 when true,
    "00" when others;
  temp99 <= sw(2) = '1';
  with temp99 select temp100 <=
    temp93 when true,
    temp98 when others;
  temp101 <= sw(1) = '1';
  with temp101 select temp102 <=
    temp90 when true,
    temp100 when others;
  temp103 <= sw(0) = '1';
  with temp103 select temp104 <=
    temp87 when true,
    temp102 when others;
  buffer_choose_option <= temp104;
  

  logic_ifexpr: process(sw)
    variable cond : boolean;
    variable temp105 : std_logic;
    variable cond1 : boolean;
    variable temp106 : std_logic_vector(3 downto 0);
    variable cond2 : boolean;
    variable temp107 : std_logic_vector(3 downto 0);
    variable cond3 : boolean;
    variable temp108 : unsigned(3 downto 0);
    variable cond4 : boolean;
    variable temp109 : signed(3 downto 0);
    variable cond5 : boolean;
    variable temp110 : signed(3 downto 0);
    variable cond6 : boolean;
    variable temp111 : signed(3 downto 0);
    variable cond7 : boolean;
    variable temp112 : unsigned(3 downto 0);
    variable cond8 : boolean;
    variable temp113 : std_logic_vector(3 downto 0);
    variable temp114 : std_logic_vector(3 downto 0);
    variable cond9 : boolean;
    variable temp115 : std_logic_vector(3 downto 0);
  begin
    cond := (sw(0) = sw(1));
    if cond then
      temp105 := '1';
      buffer_cond_call_bit <= temp105;
      cond1 := (sw(0) = sw(1));
      if cond1 then
        temp106 := "1000";
        buffer_cond_call_bitvector <= temp106;
        cond2 := (sw(0) = sw(1));
        if cond2 then
          temp107 := sw;
          buffer_cond_call_bitvector_signal <= temp107;
          cond3 := (sw(0) = sw(1));
          if cond3 then
            temp108 := unsigned'("0001");
            buffer_cond_call_unsigned <= temp108;
            cond4 := (sw(0) = sw(1));
            if cond4 then
              temp109 := signed'("1111");
              buffer_cond_call_signed <= temp109;
            else
              cond5 := (sw(1) = sw(2));
              if cond5 then
                temp110 := signed'("1110");
                temp109 := temp110;
                buffer_cond_call_signed <= temp109;
              else
                cond6 := (sw(2) = sw(3));
                if cond6 then
                  temp111 := signed'("1101");
                  temp110 := temp111;
                  temp109 := temp110;
                  buffer_cond_call_signed <= temp109;
                else
                  temp111 := signed'("0000");
                  temp110 := temp111;
                  temp109 := temp110;
                  buffer_cond_call_signed <= temp109;
                end if;
              end if;
            end if;
          else
            cond7 := (sw(1) = sw(2));
            if cond7 then
              temp112 := unsigned'("0010");
              temp108 := temp112;
              buffer_cond_call_unsigned <= temp108;
              cond4 := (sw(0) = sw(1));
              if cond4 then
                temp109 := signed'("1111");
                buffer_cond_call_signed <= temp109;
              else
                cond5 := (sw(1) = sw(2));
                if cond5 then
                  temp110 := signed'("1110");
                  temp109 := temp110;
                  buffer_cond_call_signed <= temp109;
                else
                  cond6 := (sw(2) = sw(3));
                  if cond6 then
                    temp111 := signed'("1101");
                    temp110 := temp111;
                    temp109 := temp110;
                    buffer_cond_call_signed <= temp109;
                  else
                    temp111 := signed'("0000");
                    temp110 := temp111;
                    temp109 := temp110;
                    buffer_cond_call_signed <= temp109;
                  end if;
                end if;
              end if;
            else
              temp112 := unsigned'("0000");
              temp108 := temp112;
              buffer_cond_call_unsigned <= temp108;
              cond4 := (sw(0) = sw(1));
              if cond4 then
                temp109 := signed'("1111");
                buffer_cond_call_signed <= temp109;
              else
                cond5 := (sw(1) = sw(2));
                if cond5 then
                  temp110 := signed'("1110");
                  temp109 := temp110;
                  buffer_cond_call_signed <= temp109;
                else
                  cond6 := (sw(2) = sw(3));
                  if cond6 then
                    temp111 := signed'("1101");
                    temp110 := temp111;
                    temp109 := temp110;
                    buffer_cond_call_signed <= temp109;
                  else
                    temp111 := signed'("0000");
                    temp110 := temp111;
                    temp109 := temp110;
                    buffer_cond_call_signed <= temp109;
                  end if;
                end if;
              end if;
            end if;
          end if;
        else
          cond8 := (sw(1) = sw(2));
          if cond8 then
            temp113 := not (sw);
            temp114 := temp113;
            temp107 := temp114;
            buffer_cond_call_bitvector_signal <= temp107;
            cond3 := (sw(0) = sw(1));
            if cond3 then
              temp108 := unsigned'("0001");
              buffer_cond_call_unsigned <= temp108;
              cond4 := (sw(0) = sw(1));
              if cond4 then
                temp109 := signed'("1111");
                buffer_cond_call_signed <= temp109;
              else
                cond5 := (sw(1) = sw(2));
                if cond5 then
                  temp110 := signed'("1110");
                  temp109 := temp110;
                  buffer_cond_call_signed <= temp109;
                else
                  cond6 := (sw(2) = sw(3));
                  if cond6 then
                    temp111 := signed'("1101");
                    temp110 := temp111;
                    temp109 := temp110;
                    buffer_cond_call_signed <= temp109;
                  else
                    temp111 := signed'("0000");
                    temp110 := temp111;
                    temp109 := temp110;
                    buffer_cond_call_signed <= temp109;
                  end if;
                end if;
              end if;
            else
              cond7 := (sw(1) = sw(2));
              if cond7 then
                temp112 := unsigned'("0010");
                temp108 := temp112;
                buffer_cond_call_unsigned <= temp108;
                cond4 := (sw(0) = sw(1));
                if cond4 then
                  temp109 := signed'("1111");
                  buffer_cond_call_signed <= temp109;
                else
                  cond5 := (sw(1) = sw(2));
                  if cond5 then
                    temp110 := signed'("1110");
                    temp109 := temp110;
                    buffer_cond_call_signed <= temp109;
                  else
                    cond6 := (sw(2) = sw(3));
                    if cond6 then
                      temp111 := signed'("1101");
                      temp110 := temp111;
                      temp109 := temp110;
                      buffer_cond_call_signed <= temp109;
                    else
                      temp111 := signed'("0000");
                      temp110 := temp111;
                      temp109 := temp110;
                      buffer_cond_call_signed <= temp109;
                    end if;
                  end if;
                end if;
              else
                temp112 := unsigned'("0000");
                temp108 := temp112;
                buffer_cond_call_unsigned <= temp108;
                cond4 := (sw(0) = sw(1));
                if cond4 then
                  temp109 := signed'("1111");
                  buffer_cond_call_signed <= temp109;
                else
                  cond5 := (sw(1) = sw(2));
                  if cond5 then
                    temp110 := signed'("1110");
                    temp109 := temp110;
                    buffer_cond_call_signed <= temp109;
                  else
                    cond6 := (sw(2) = sw(3));
                    if cond6 then
                      temp111 := signed'("1101");
                      temp110 := temp111;
                      temp109 := temp110;
                      buffer_cond_call_signed <= temp109;
                    else
                      temp111 := signed'("0000");
                      temp110 := temp111;
                      temp109 := temp110;
                      buffer_cond_call_signed <= temp109;
                    end if;
                  end if;
                end if;
              end if;
            end if;
          else
            temp114 := "1111";
            temp107 := temp114;
            buffer_cond_call_bitvector_signal <= temp107;
            cond3 := (sw(0) = sw(1));
            if cond3 then
              temp108 := unsigned'("0001");
              buffer_cond_call_unsigned <= temp108;
              cond4 := (sw(0) = sw(1));
              if cond4 then
                temp109 := signed'("1111");
                buffer_cond_call_signed <= temp109;
              else
                cond5 := (sw(1) = sw(2));
                if cond5 then
                  temp110 := signed'("1110");
                  temp109 := temp110;
                  buffer_cond_call_signed <= temp109;
                else
                  cond6 := (sw(2) = sw(3));
                  if cond6 then
                    temp111 := signed'("1101");
                    temp110 := temp111;
                    temp109 := temp110;
                    buffer_cond_call_signed <= temp109;
                  else
                    temp111 := signed'("0000");
                    temp110 := temp111;
                    temp109 := temp110;
                    buffer_cond_call_signed <= temp109;
                  end if;
                end if;
              end if;
            else
              cond7 := (sw(1) = sw(2));
              if cond7 then
                temp112 := unsigned'("0010");
                temp108 := temp112;
                buffer_cond_call_unsigned <= temp108;
                cond4 := (sw(0) = sw(1));
                if cond4 then
                  temp109 := signed'("1111");
                  buffer_cond_call_signed <= temp109;
                else
                  cond5 := (sw(1) = sw(2));
                  if cond5 then
                    temp110 := signed'("1110");
                    temp109 := temp110;
                    buffer_cond_call_signed <= temp109;
                  else
                    cond6 := (sw(2) = sw(3));
                    if cond6 then
                      temp111 := signed'("1101");
                      temp110 := temp111;
                      temp109 := temp110;
                      buffer_cond_call_signed <= temp109;
                    else
                      temp111 := signed'("0000");
                      temp110 := temp111;
                      temp109 := temp110;
                      buffer_cond_call_signed <= temp109;
                    end if;
                  end if;
                end if;
              else
                temp112 := unsigned'("0000");
                temp108 := temp112;
                buffer_cond_call_unsigned <= temp108;
                cond4 := (sw(0) = sw(1));
                if cond4 then
                  temp109 := signed'("1111");
                  buffer_cond_call_signed <= temp109;
                else
                  cond5 := (sw(1) = sw(2));
                  if cond5 then
                    temp110 := signed'("1110");
                    temp109 := temp110;
                    buffer_cond_call_signed <= temp109;
                  else
                    cond6 := (sw(2) = sw(3));
                    if cond6 then
                      temp111 := signed'("1101");
                      temp110 := temp111;
                      temp109 := temp110;
                      buffer_cond_call_signed <= temp109;
                    else
                      temp111 := signed'("0000");
                      temp110 := temp111;
                      temp109 := temp110;
                      buffer_cond_call_signed <= temp109;
                    end if;
                  end if;
                end if;
              end if;
            end if;
          end if;
        end if;
      else
        cond9 := (sw(1) = sw(2));
        if cond9 then
          temp115 := "0001";
          temp106 := temp115;
          buffer_cond_call_bitvector <= temp106;
          cond2 := (sw(0) = sw(1));
          if cond2 then
            temp107 := sw;
            buffer_cond_call_bitvector_signal <= temp107;
            cond3 := (sw(0) = sw(1));
            if cond3 then
              temp108 := unsigned'("0001");
              buffer_cond_call_unsigned <= temp108;
              cond4 := (sw(0) = sw(1));
              if cond4 then
                temp109 := signed'("1111");
                buffer_cond_call_signed <= temp109;
              else
                cond5 := (sw(1) = sw(2));
                if cond5 then
                  temp110 := signed'("1110");
                  temp109 := temp110;
                  buffer_cond_call_signed <= temp109;
                else
                  cond6 := (sw(2) = sw(3));
                  if cond6 then
                    temp111 := signed'("1101");
                    temp110 := temp111;
                    temp109 := temp110;
                    buffer_cond_call_signed <= temp109;
                  else
                    temp111 := signed'("0000");
                    temp110 := temp111;
                    temp109 := temp110;
                    buffer_cond_call_signed <= temp109;
                  end if;
                end if;
              end if;
            else
              cond7 := (sw(1) = sw(2));
              if cond7 then
                temp112 := unsigned'("0010");
                temp108 := temp112;
                buffer_cond_call_unsigned <= temp108;
                cond4 := (sw(0) = sw(1));
                if cond4 then
                  temp109 := signed'("1111");
                  buffer_cond_call_signed <= temp109;
                else
                  cond5 := (sw(1) = sw(2));
                  if cond5 then
                    temp110 := signed'("1110");
                    temp109 := temp110;
                    buffer_cond_call_signed <= temp109;
                  else
                    cond6 := (sw(2) = sw(3));
                    if cond6 then
                      temp111 := signed'("1101");
                      temp110 := temp111;
                      temp109 := temp110;
                      buffer_cond_call_signed <= temp109;
                    else
                      temp111 := signed'("0000");
                      temp110 := temp111;
                      temp109 := temp110;
                      buffer_cond_call_signed <= temp109;
                    end if;
                  end if;
                end if;
              else
                temp112 := unsigned'("0000");
                temp108 := temp112;
                buffer_cond_call_unsigned <= temp108;
                cond4 := (sw(0) = sw(1));
                if cond4 then
                  temp109 := signed'("1111");
                  buffer_cond_call_signed <= temp109;
                else
                  cond5 := (sw(1) = sw(2));
                  if cond5 then
                    temp110 := signed'("1110");
                    temp109 := temp110;
                    buffer_cond_call_signed <= temp109;
                  else
                    cond6 := (sw(2) = sw(3));
                    if cond6 then
                      temp111 := signed'("1101");
                      temp110 := temp111;
                      temp109 := temp110;
                      buffer_cond_call_signed <= temp109;
                    else
                      temp111 := signed'("0000");
                      temp110 := temp111;
                      temp109 := temp110;
                      buffer_cond_call_signed <= temp109;
                    end if;
                  end if;
                end if;
              end if;
            end if;
          else
            cond8 := (sw(1) = sw(2));
            if cond8 then
              temp113 := not (sw);
              temp114 := temp113;
              temp107 := temp114;
              buffer_cond_call_bitvector_signal <= temp107;
              cond3 := (sw(0) = sw(1));
              if cond3 then
                temp108 := unsigned'("0001");
                buffer_cond_call_unsigned <= temp108;
                cond4 := (sw(0) = sw(1));
                if cond4 then
                  temp109 := signed'("1111");
                  buffer_cond_call_signed <= temp109;
                else
                  cond5 := (sw(1) = sw(2));
                  if cond5 then
                    temp110 := signed'("1110");
                    temp109 := temp110;
                    buffer_cond_call_signed <= temp109;
                  else
                    cond6 := (sw(2) = sw(3));
                    if cond6 then
                      temp111 := signed'("1101");
                      temp110 := temp111;
                      temp109 := temp110;
                      buffer_cond_call_signed <= temp109;
                    else
                      temp111 := signed'("0000");
                      temp110 := temp111;
                      temp109 := temp110;
                      buffer_cond_call_signed <= temp109;
                    end if;
                  end if;
                end if;
              else
                cond7 := (sw(1) = sw(2));
                if cond7 then
                  temp112 := unsigned'("0010");
                  temp108 := temp112;
                  buffer_cond_call_unsigned <= temp108;
                  cond4 := (sw(0) = sw(1));
                  if cond4 then
                    temp109 := signed'("1111");
                    buffer_cond_call_signed <= temp109;
                  else
                    cond5 := (sw(1) = sw(2));
                    if cond5 then
                      temp110 := signed'("1110");
                      temp109 := temp110;
                      buffer_cond_call_signed <= temp109;
                    else
                      cond6 := (sw(2) = sw(3));
                      if cond6 then
                        temp111 := signed'("1101");
                        temp110 := temp111;
                        temp109 := temp110;
                        buffer_cond_call_signed <= temp109;
                      else
                        temp111 := signed'("0000");
                        temp110 := temp111;
                        temp109 := temp110;
                        buffer_cond_call_signed <= temp109;
                      end if;
                    end if;
                  end if;
                else
                  temp112 := unsigned'("0000");
                  temp108 := temp112;
                  buffer_cond_call_unsigned <= temp108;
                  cond4 := (sw(0) = sw(1));
                  if cond4 then
                    temp109 := signed'("1111");
                    buffer_cond_call_signed <= temp109;
                  else
                    cond5 := (sw(1) = sw(2));
                    if cond5 then
                      temp110 := signed'("1110");
                      temp109 := temp110;
                      buffer_cond_call_signed <= temp109;
                    else
                      cond6 := (sw(2) = sw(3));
                      if cond6 then
                        temp111 := signed'("1101");
                        temp110 := temp111;
                        temp109 := temp110;
                        buffer_cond_call_signed <= temp109;
                      else
                        temp111 := signed'("0000");
                        temp110 := temp111;
                        temp109 := temp110;
                        buffer_cond_call_signed <= temp109;
                      end if;
                    end if;
                  end if;
                end if;
              end if;
            else
              temp114 := "1111";
              temp107 := temp114;
              buffer_cond_call_bitvector_signal <= temp107;
              cond3 := (sw(0) = sw(1));
              if cond3 then
                temp108 := unsigned'("0001");
                buffer_cond_call_unsigned <= temp108;
                cond4 := (sw(0) = sw(1));
                if cond4 then
                  temp109 := signed'("1111");
                  buffer_cond_call_signed <= temp109;
                else
                  cond5 := (sw(1) = sw(2));
                  if cond5 then
                    temp110 := signed'("1110");
                    temp109 := temp110;
                    buffer_cond_call_signed <= temp109;
                  else
                    cond6 := (sw(2) = sw(3));
                    if cond6 then
                      temp111 := signed'("1101");
                      temp110 := temp111;
                      temp109 := temp110;
                      buffer_cond_call_signed <= temp109;
                    else
                      temp111 := signed'("0000");
                      temp110 := temp111;
                      temp109 := temp110;
                      buffer_cond_call_signed <= temp109;
                    end if;
                  end if;
                end if;
              else
                cond7 := (sw(1) = sw(2));
                if cond7 then
                  temp112 := unsigned'("0010");
                  temp108 := temp112;
                  buffer_cond_call_unsigned <= temp108;
                  cond4 := (sw(0) = sw(1));
                  if cond4 then
                    temp109 := signed'("1111");
                    buffer_cond_call_signed <= temp109;
                  else
                    cond5 := (sw(1) = sw(2));
                    if cond5 then
                      temp110 := signed'("1110");
                      temp109 := temp110;
                      buffer_cond_call_signed <= temp109;
                    else
                      cond6 := (sw(2) = sw(3));
                      if cond6 then
                        temp111 := signed'("1101");
                        temp110 := temp111;
                        temp109 := temp110;
                        buffer_cond_call_signed <= temp109;
                      else
                        temp111 := signed'("0000");
                        temp110 := temp111;
                        temp109 := temp110;
                        buffer_cond_call_signed <= temp109;
                      end if;
                    end if;
                  end if;
                else
                  temp112 := unsigned'("0000");
                  temp108 := temp112;
                  buffer_cond_call_unsigned <= temp108;
                  cond4 := (sw(0) = sw(1));
                  if cond4 then
                    temp109 := signed'("1111");
                    buffer_cond_call_signed <= temp109;
                  else
                    cond5 := (sw(1) = sw(2));
                    if cond5 then
                      temp110 := signed'("1110");
                      temp109 := temp110;
                      buffer_cond_call_signed <= temp109;
                    else
                      cond6 := (sw(2) = sw(3));
                      if cond6 then
                        temp111 := signed'("1101");
                        temp110 := temp111;
                        temp109 := temp110;
                        buffer_cond_call_signed <= temp109;
                      else
                        temp111 := signed'("0000");
                        temp110 := temp111;
                        temp109 := temp110;
                        buffer_cond_call_signed <= temp109;
                      end if;
                    end if;
                  end if;
                end if;
              end if;
            end if;
          end if;
        else
          temp115 := "0000";
          temp106 := temp115;
          buffer_cond_call_bitvector <= temp106;
          cond2 := (sw(0) = sw(1));
          if cond2 then
            temp107 := sw;
            buffer_cond_call_bitvector_signal <= temp107;
            cond3 := (sw(0) = sw(1));
            if cond3 then
              temp108 := unsigned'("0001");
              buffer_cond_call_unsigned <= temp108;
              cond4 := (sw(0) = sw(1));
              if cond4 then
                temp109 := signed'("1111");
                buffer_cond_call_signed <= temp109;
              else
                cond5 := (sw(1) = sw(2));
                if cond5 then
                  temp110 := signed'("1110");
                  temp109 := temp110;
                  buffer_cond_call_signed <= temp109;
                else
                  cond6 := (sw(2) = sw(3));
                  if cond6 then
                    temp111 := signed'("1101");
                    temp110 := temp111;
                    temp109 := temp110;
                    buffer_cond_call_signed <= temp109;
                  else
                    temp111 := signed'("0000");
                    temp110 := temp111;
                    temp109 := temp110;
                    buffer_cond_call_signed <= temp109;
                  end if;
                end if;
              end if;
            else
              cond7 := (sw(1) = sw(2));
              if cond7 then
                temp112 := unsigned'("0010");
                temp108 := temp112;
                buffer_cond_call_unsigned <= temp108;
                cond4 := (sw(0) = sw(1));
                if cond4 then
                  temp109 := signed'("1111");
                  buffer_cond_call_signed <= temp109;
                else
                  cond5 := (sw(1) = sw(2));
                  if cond5 then
                    temp110 := signed'("1110");
                    temp109 := temp110;
                    buffer_cond_call_signed <= temp109;
                  else
                    cond6 := (sw(2) = sw(3));
                    if cond6 then
                      temp111 := signed'("1101");
                      temp110 := temp111;
                      temp109 := temp110;
                      buffer_cond_call_signed <= temp109;
                    else
                      temp111 := signed'("0000");
                      temp110 := temp111;
                      temp109 := temp110;
                      buffer_cond_call_signed <= temp109;
                    end if;
                  end if;
                end if;
              else
                temp112 := unsigned'("0000");
                temp108 := temp112;
                buffer_cond_call_unsigned <= temp108;
                cond4 := (sw(0) = sw(1));
                if cond4 then
                  temp109 := signed'("1111");
                  buffer_cond_call_signed <= temp109;
                else
                  cond5 := (sw(1) = sw(2));
                  if cond5 then
                    temp110 := signed'("1110");
                    temp109 := temp110;
                    buffer_cond_call_signed <= temp109;
                  else
                    cond6 := (sw(2) = sw(3));
                    if cond6 then
                      temp111 := signed'("1101");
                      temp110 := temp111;
                      temp109 := temp110;
                      buffer_cond_call_signed <= temp109;
                    else
                      temp111 := signed'("0000");
                      temp110 := temp111;
                      temp109 := temp110;
                      buffer_cond_call_signed <= temp109;
                    end if;
                  end if;
                end if;
              end if;
            end if;
          else
            cond8 := (sw(1) = sw(2));
            if cond8 then
              temp113 := not (sw);
              temp114 := temp113;
              temp107 := temp114;
              buffer_cond_call_bitvector_signal <= temp107;
              cond3 := (sw(0) = sw(1));
              if cond3 then
                temp108 := unsigned'("0001");
                buffer_cond_call_unsigned <= temp108;
                cond4 := (sw(0) = sw(1));
                if cond4 then
                  temp109 := signed'("1111");
                  buffer_cond_call_signed <= temp109;
                else
                  cond5 := (sw(1) = sw(2));
                  if cond5 then
                    temp110 := signed'("1110");
                    temp109 := temp110;
                    buffer_cond_call_signed <= temp109;
                  else
                    cond6 := (sw(2) = sw(3));
                    if cond6 then
                      temp111 := signed'("1101");
                      temp110 := temp111;
                      temp109 := temp110;
                      buffer_cond_call_signed <= temp109;
                    else
                      temp111 := signed'("0000");
                      temp110 := temp111;
                      temp109 := temp110;
                      buffer_cond_call_signed <= temp109;
                    end if;
                  end if;
                end if;
              else
                cond7 := (sw(1) = sw(2));
                if cond7 then
                  temp112 := unsigned'("0010");
                  temp108 := temp112;
                  buffer_cond_call_unsigned <= temp108;
                  cond4 := (sw(0) = sw(1));
                  if cond4 then
                    temp109 := signed'("1111");
                    buffer_cond_call_signed <= temp109;
                  else
                    cond5 := (sw(1) = sw(2));
                    if cond5 then
                      temp110 := signed'("1110");
                      temp109 := temp110;
                      buffer_cond_call_signed <= temp109;
                    else
                      cond6 := (sw(2) = sw(3));
                      if cond6 then
                        temp111 := signed'("1101");
                        temp110 := temp111;
                        temp109 := temp110;
                        buffer_cond_call_signed <= temp109;
                      else
                        temp111 := signed'("0000");
                        temp110 := temp111;
                        temp109 := temp110;
                        buffer_cond_call_signed <= temp109;
                      end if;
                    end if;
                  end if;
                else
                  temp112 := unsigned'("0000");
                  temp108 := temp112;
                  buffer_cond_call_unsigned <= temp108;
                  cond4 := (sw(0) = sw(1));
                  if cond4 then
                    temp109 := signed'("1111");
                    buffer_cond_call_signed <= temp109;
                  else
                    cond5 := (sw(1) = sw(2));
                    if cond5 then
                      temp110 := signed'("1110");
                      temp109 := temp110;
                      buffer_cond_call_signed <= temp109;
                    else
                      cond6 := (sw(2) = sw(3));
                      if cond6 then
                        temp111 := signed'("1101");
                        temp110 := temp111;
                        temp109 := temp110;
                        buffer_cond_call_signed <= temp109;
                      else
                        temp111 := signed'("0000");
                        temp110 := temp111;
                        temp109 := temp110;
                        buffer_cond_call_signed <= temp109;
                      end if;
                    end if;
                  end if;
                end if;
              end if;
            else
              temp114 := "1111";
              temp107 := temp114;
              buffer_cond_call_bitvector_signal <= temp107;
              cond3 := (sw(0) = sw(1));
              if cond3 then
                temp108 := unsigned'("0001");
                buffer_cond_call_unsigned <= temp108;
                cond4 := (sw(0) = sw(1));
                if cond4 then
                  temp109 := signed'("1111");
                  buffer_cond_call_signed <= temp109;
                else
                  cond5 := (sw(1) = sw(2));
                  if cond5 then
                    temp110 := signed'("1110");
                    temp109 := temp110;
                    buffer_cond_call_signed <= temp109;
                  else
                    cond6 := (sw(2) = sw(3));
                    if cond6 then
                      temp111 := signed'("1101");
                      temp110 := temp111;
                      temp109 := temp110;
                      buffer_cond_call_signed <= temp109;
                    else
                      temp111 := signed'("0000");
                      temp110 := temp111;
                      temp109 := temp110;
                      buffer_cond_call_signed <= temp109;
                    end if;
                  end if;
                end if;
              else
                cond7 := (sw(1) = sw(2));
                if cond7 then
                  temp112 := unsigned'("0010");
                  temp108 := temp112;
                  buffer_cond_call_unsigned <= temp108;
                  cond4 := (sw(0) = sw(1));
                  if cond4 then
                    temp109 := signed'("1111");
                    buffer_cond_call_signed <= temp109;
                  else
                    cond5 := (sw(1) = sw(2));
                    if cond5 then
                      temp110 := signed'("1110");
                      temp109 := temp110;
                      buffer_cond_call_signed <= temp109;
                    else
                      cond6 := (sw(2) = sw(3));
                      if cond6 then
                        temp111 := signed'("1101");
                        temp110 := temp111;
                        temp109 := temp110;
                        buffer_cond_call_signed <= temp109;
                      else
                        temp111 := signed'("0000");
                        temp110 := temp111;
                        temp109 := temp110;
                        buffer_cond_call_signed <= temp109;
                      end if;
                    end if;
                  end if;
                else
                  temp112 := unsigned'("0000");
                  temp108 := temp112;
                  buffer_cond_call_unsigned <= temp108;
                  cond4 := (sw(0) = sw(1));
                  if cond4 then
                    temp109 := signed'("1111");
                    buffer_cond_call_signed <= temp109;
                  else
                    cond5 := (sw(1) = sw(2));
                    if cond5 then
                      temp110 := signed'("1110");
                      temp109 := temp110;
                      buffer_cond_call_signed <= temp109;
                    else
                      cond6 := (sw(2) = sw(3));
                      if cond6 then
                        temp111 := signed'("1101");
                        temp110 := temp111;
                        temp109 := temp110;
                        buffer_cond_call_signed <= temp109;
                      else
                        temp111 := signed'("0000");
                        temp110 := temp111;
                        temp109 := temp110;
                        buffer_cond_call_signed <= temp109;
                      end if;
                    end if;
                  end if;
                end if;
              end if;
            end if;
          end if;
        end if;
      end if;
    else
      temp105 := '0';
      buffer_cond_call_bit <= temp105;
      cond1 := (sw(0) = sw(1));
      if cond1 then
        temp106 := "1000";
        buffer_cond_call_bitvector <= temp106;
        cond2 := (sw(0) = sw(1));
        if cond2 then
          temp107 := sw;
          buffer_cond_call_bitvector_signal <= temp107;
          cond3 := (sw(0) = sw(1));
          if cond3 then
            temp108 := unsigned'("0001");
            buffer_cond_call_unsigned <= temp108;
            cond4 := (sw(0) = sw(1));
            if cond4 then
              temp109 := signed'("1111");
              buffer_cond_call_signed <= temp109;
            else
              cond5 := (sw(1) = sw(2));
              if cond5 then
                temp110 := signed'("1110");
                temp109 := temp110;
                buffer_cond_call_signed <= temp109;
              else
                cond6 := (sw(2) = sw(3));
                if cond6 then
                  temp111 := signed'("1101");
                  temp110 := temp111;
                  temp109 := temp110;
                  buffer_cond_call_signed <= temp109;
                else
                  temp111 := signed'("0000");
                  temp110 := temp111;
                  temp109 := temp110;
                  buffer_cond_call_signed <= temp109;
                end if;
              end if;
            end if;
          else
            cond7 := (sw(1) = sw(2));
            if cond7 then
              temp112 := unsigned'("0010");
              temp108 := temp112;
              buffer_cond_call_unsigned <= temp108;
              cond4 := (sw(0) = sw(1));
              if cond4 then
                temp109 := signed'("1111");
                buffer_cond_call_signed <= temp109;
              else
                cond5 := (sw(1) = sw(2));
                if cond5 then
                  temp110 := signed'("1110");
                  temp109 := temp110;
                  buffer_cond_call_signed <= temp109;
                else
                  cond6 := (sw(2) = sw(3));
                  if cond6 then
                    temp111 := signed'("1101");
                    temp110 := temp111;
                    temp109 := temp110;
                    buffer_cond_call_signed <= temp109;
                  else
                    temp111 := signed'("0000");
                    temp110 := temp111;
                    temp109 := temp110;
                    buffer_cond_call_signed <= temp109;
                  end if;
                end if;
              end if;
            else
              temp112 := unsigned'("0000");
              temp108 := temp112;
              buffer_cond_call_unsigned <= temp108;
              cond4 := (sw(0) = sw(1));
              if cond4 then
                temp109 := signed'("1111");
                buffer_cond_call_signed <= temp109;
              else
                cond5 := (sw(1) = sw(2));
                if cond5 then
                  temp110 := signed'("1110");
                  temp109 := temp110;
                  buffer_cond_call_signed <= temp109;
                else
                  cond6 := (sw(2) = sw(3));
                  if cond6 then
                    temp111 := signed'("1101");
                    temp110 := temp111;
                    temp109 := temp110;
                    buffer_cond_call_signed <= temp109;
                  else
                    temp111 := signed'("0000");
                    temp110 := temp111;
                    temp109 := temp110;
                    buffer_cond_call_signed <= temp109;
                  end if;
                end if;
              end if;
            end if;
          end if;
        else
          cond8 := (sw(1) = sw(2));
          if cond8 then
            temp113 := not (sw);
            temp114 := temp113;
            temp107 := temp114;
            buffer_cond_call_bitvector_signal <= temp107;
            cond3 := (sw(0) = sw(1));
            if cond3 then
              temp108 := unsigned'("0001");
              buffer_cond_call_unsigned <= temp108;
              cond4 := (sw(0) = sw(1));
              if cond4 then
                temp109 := signed'("1111");
                buffer_cond_call_signed <= temp109;
              else
                cond5 := (sw(1) = sw(2));
                if cond5 then
                  temp110 := signed'("1110");
                  temp109 := temp110;
                  buffer_cond_call_signed <= temp109;
                else
                  cond6 := (sw(2) = sw(3));
                  if cond6 then
                    temp111 := signed'("1101");
                    temp110 := temp111;
                    temp109 := temp110;
                    buffer_cond_call_signed <= temp109;
                  else
                    temp111 := signed'("0000");
                    temp110 := temp111;
                    temp109 := temp110;
                    buffer_cond_call_signed <= temp109;
                  end if;
                end if;
              end if;
            else
              cond7 := (sw(1) = sw(2));
              if cond7 then
                temp112 := unsigned'("0010");
                temp108 := temp112;
                buffer_cond_call_unsigned <= temp108;
                cond4 := (sw(0) = sw(1));
                if cond4 then
                  temp109 := signed'("1111");
                  buffer_cond_call_signed <= temp109;
                else
                  cond5 := (sw(1) = sw(2));
                  if cond5 then
                    temp110 := signed'("1110");
                    temp109 := temp110;
                    buffer_cond_call_signed <= temp109;
                  else
                    cond6 := (sw(2) = sw(3));
                    if cond6 then
                      temp111 := signed'("1101");
                      temp110 := temp111;
                      temp109 := temp110;
                      buffer_cond_call_signed <= temp109;
                    else
                      temp111 := signed'("0000");
                      temp110 := temp111;
                      temp109 := temp110;
                      buffer_cond_call_signed <= temp109;
                    end if;
                  end if;
                end if;
              else
                temp112 := unsigned'("0000");
                temp108 := temp112;
                buffer_cond_call_unsigned <= temp108;
                cond4 := (sw(0) = sw(1));
                if cond4 then
                  temp109 := signed'("1111");
                  buffer_cond_call_signed <= temp109;
                else
                  cond5 := (sw(1) = sw(2));
                  if cond5 then
                    temp110 := signed'("1110");
                    temp109 := temp110;
                    buffer_cond_call_signed <= temp109;
                  else
                    cond6 := (sw(2) = sw(3));
                    if cond6 then
                      temp111 := signed'("1101");
                      temp110 := temp111;
                      temp109 := temp110;
                      buffer_cond_call_signed <= temp109;
                    else
                      temp111 := signed'("0000");
                      temp110 := temp111;
                      temp109 := temp110;
                      buffer_cond_call_signed <= temp109;
                    end if;
                  end if;
                end if;
              end if;
            end if;
          else
            temp114 := "1111";
            temp107 := temp114;
            buffer_cond_call_bitvector_signal <= temp107;
            cond3 := (sw(0) = sw(1));
            if cond3 then
              temp108 := unsigned'("0001");
              buffer_cond_call_unsigned <= temp108;
              cond4 := (sw(0) = sw(1));
              if cond4 then
                temp109 := signed'("1111");
                buffer_cond_call_signed <= temp109;
              else
                cond5 := (sw(1) = sw(2));
                if cond5 then
                  temp110 := signed'("1110");
                  temp109 := temp110;
                  buffer_cond_call_signed <= temp109;
                else
                  cond6 := (sw(2) = sw(3));
                  if cond6 then
                    temp111 := signed'("1101");
                    temp110 := temp111;
                    temp109 := temp110;
                    buffer_cond_call_signed <= temp109;
                  else
                    temp111 := signed'("0000");
                    temp110 := temp111;
                    temp109 := temp110;
                    buffer_cond_call_signed <= temp109;
                  end if;
                end if;
              end if;
            else
              cond7 := (sw(1) = sw(2));
              if cond7 then
                temp112 := unsigned'("0010");
                temp108 := temp112;
                buffer_cond_call_unsigned <= temp108;
                cond4 := (sw(0) = sw(1));
                if cond4 then
                  temp109 := signed'("1111");
                  buffer_cond_call_signed <= temp109;
                else
                  cond5 := (sw(1) = sw(2));
                  if cond5 then
                    temp110 := signed'("1110");
                    temp109 := temp110;
                    buffer_cond_call_signed <= temp109;
                  else
                    cond6 := (sw(2) = sw(3));
                    if cond6 then
                      temp111 := signed'("1101");
                      temp110 := temp111;
                      temp109 := temp110;
                      buffer_cond_call_signed <= temp109;
                    else
                      temp111 := signed'("0000");
                      temp110 := temp111;
                      temp109 := temp110;
                      buffer_cond_call_signed <= temp109;
                    end if;
                  end if;
                end if;
              else
                temp112 := unsigned'("0000");
                temp108 := temp112;
                buffer_cond_call_unsigned <= temp108;
                cond4 := (sw(0) = sw(1));
                if cond4 then
                  temp109 := signed'("1111");
                  buffer_cond_call_signed <= temp109;
                else
                  cond5 := (sw(1) = sw(2));
                  if cond5 then
                    temp110 := signed'("1110");
                    temp109 := temp110;
                    buffer_cond_call_signed <= temp109;
                  else
                    cond6 := (sw(2) = sw(3));
                    if cond6 then
                      temp111 := signed'("1101");
                      temp110 := temp111;
                      temp109 := temp110;
                      buffer_cond_call_signed <= temp109;
                    else
                      temp111 := signed'("0000");
                      temp110 := temp111;
                      temp109 := temp110;
                      buffer_cond_call_signed <= temp109;
                    end if;
                  end if;
                end if;
              end if;
            end if;
          end if;
        end if;
      else
        cond9 := (sw(1) = sw(2));
        if cond9 then
          temp115 := "0001";
          temp106 := temp115;
          buffer_cond_call_bitvector <= temp106;
          cond2 := (sw(0) = sw(1));
          if cond2 then
            temp107 := sw;
            buffer_cond_call_bitvector_signal <= temp107;
            cond3 := (sw(0) = sw(1));
            if cond3 then
              temp108 := unsigned'("0001");
              buffer_cond_call_unsigned <= temp108;
              cond4 := (sw(0) = sw(1));
              if cond4 then
                temp109 := signed'("1111");
                buffer_cond_call_signed <= temp109;
              else
                cond5 := (sw(1) = sw(2));
                if cond5 then
                  temp110 := signed'("1110");
                  temp109 := temp110;
                  buffer_cond_call_signed <= temp109;
                else
                  cond6 := (sw(2) = sw(3));
                  if cond6 then
                    temp111 := signed'("1101");
                    temp110 := temp111;
                    temp109 := temp110;
                    buffer_cond_call_signed <= temp109;
                  else
                    temp111 := signed'("0000");
                    temp110 := temp111;
                    temp109 := temp110;
                    buffer_cond_call_signed <= temp109;
                  end if;
                end if;
              end if;
            else
              cond7 := (sw(1) = sw(2));
              if cond7 then
                temp112 := unsigned'("0010");
                temp108 := temp112;
                buffer_cond_call_unsigned <= temp108;
                cond4 := (sw(0) = sw(1));
                if cond4 then
                  temp109 := signed'("1111");
                  buffer_cond_call_signed <= temp109;
                else
                  cond5 := (sw(1) = sw(2));
                  if cond5 then
                    temp110 := signed'("1110");
                    temp109 := temp110;
                    buffer_cond_call_signed <= temp109;
                  else
                    cond6 := (sw(2) = sw(3));
                    if cond6 then
                      temp111 := signed'("1101");
                      temp110 := temp111;
                      temp109 := temp110;
                      buffer_cond_call_signed <= temp109;
                    else
                      temp111 := signed'("0000");
                      temp110 := temp111;
                      temp109 := temp110;
                      buffer_cond_call_signed <= temp109;
                    end if;
                  end if;
                end if;
              else
                temp112 := unsigned'("0000");
                temp108 := temp112;
                buffer_cond_call_unsigned <= temp108;
                cond4 := (sw(0) = sw(1));
                if cond4 then
                  temp109 := signed'("1111");
                  buffer_cond_call_signed <= temp109;
                else
                  cond5 := (sw(1) = sw(2));
                  if cond5 then
                    temp110 := signed'("1110");
                    temp109 := temp110;
                    buffer_cond_call_signed <= temp109;
                  else
                    cond6 := (sw(2) = sw(3));
                    if cond6 then
                      temp111 := signed'("1101");
                      temp110 := temp111;
                      temp109 := temp110;
                      buffer_cond_call_signed <= temp109;
                    else
                      temp111 := signed'("0000");
                      temp110 := temp111;
                      temp109 := temp110;
                      buffer_cond_call_signed <= temp109;
                    end if;
                  end if;
                end if;
              end if;
            end if;
          else
            cond8 := (sw(1) = sw(2));
            if cond8 then
              temp113 := not (sw);
              temp114 := temp113;
              temp107 := temp114;
              buffer_cond_call_bitvector_signal <= temp107;
              cond3 := (sw(0) = sw(1));
              if cond3 then
                temp108 := unsigned'("0001");
                buffer_cond_call_unsigned <= temp108;
                cond4 := (sw(0) = sw(1));
                if cond4 then
                  temp109 := signed'("1111");
                  buffer_cond_call_signed <= temp109;
                else
                  cond5 := (sw(1) = sw(2));
                  if cond5 then
                    temp110 := signed'("1110");
                    temp109 := temp110;
                    buffer_cond_call_signed <= temp109;
                  else
                    cond6 := (sw(2) = sw(3));
                    if cond6 then
                      temp111 := signed'("1101");
                      temp110 := temp111;
                      temp109 := temp110;
                      buffer_cond_call_signed <= temp109;
                    else
                      temp111 := signed'("0000");
                      temp110 := temp111;
                      temp109 := temp110;
                      buffer_cond_call_signed <= temp109;
                    end if;
                  end if;
                end if;
              else
                cond7 := (sw(1) = sw(2));
                if cond7 then
                  temp112 := unsigned'("0010");
                  temp108 := temp112;
                  buffer_cond_call_unsigned <= temp108;
                  cond4 := (sw(0) = sw(1));
                  if cond4 then
                    temp109 := signed'("1111");
                    buffer_cond_call_signed <= temp109;
                  else
                    cond5 := (sw(1) = sw(2));
                    if cond5 then
                      temp110 := signed'("1110");
                      temp109 := temp110;
                      buffer_cond_call_signed <= temp109;
                    else
                      cond6 := (sw(2) = sw(3));
                      if cond6 then
                        temp111 := signed'("1101");
                        temp110 := temp111;
                        temp109 := temp110;
                        buffer_cond_call_signed <= temp109;
                      else
                        temp111 := signed'("0000");
                        temp110 := temp111;
                        temp109 := temp110;
                        buffer_cond_call_signed <= temp109;
                      end if;
                    end if;
                  end if;
                else
                  temp112 := unsigned'("0000");
                  temp108 := temp112;
                  buffer_cond_call_unsigned <= temp108;
                  cond4 := (sw(0) = sw(1));
                  if cond4 then
                    temp109 := signed'("1111");
                    buffer_cond_call_signed <= temp109;
                  else
                    cond5 := (sw(1) = sw(2));
                    if cond5 then
                      temp110 := signed'("1110");
                      temp109 := temp110;
                      buffer_cond_call_signed <= temp109;
                    else
                      cond6 := (sw(2) = sw(3));
                      if cond6 then
                        temp111 := signed'("1101");
                        temp110 := temp111;
                        temp109 := temp110;
                        buffer_cond_call_signed <= temp109;
                      else
                        temp111 := signed'("0000");
                        temp110 := temp111;
                        temp109 := temp110;
                        buffer_cond_call_signed <= temp109;
                      end if;
                    end if;
                  end if;
                end if;
              end if;
            else
              temp114 := "1111";
              temp107 := temp114;
              buffer_cond_call_bitvector_signal <= temp107;
              cond3 := (sw(0) = sw(1));
              if cond3 then
                temp108 := unsigned'("0001");
                buffer_cond_call_unsigned <= temp108;
                cond4 := (sw(0) = sw(1));
                if cond4 then
                  temp109 := signed'("1111");
                  buffer_cond_call_signed <= temp109;
                else
                  cond5 := (sw(1) = sw(2));
                  if cond5 then
                    temp110 := signed'("1110");
                    temp109 := temp110;
                    buffer_cond_call_signed <= temp109;
                  else
                    cond6 := (sw(2) = sw(3));
                    if cond6 then
                      temp111 := signed'("1101");
                      temp110 := temp111;
                      temp109 := temp110;
                      buffer_cond_call_signed <= temp109;
                    else
                      temp111 := signed'("0000");
                      temp110 := temp111;
                      temp109 := temp110;
                      buffer_cond_call_signed <= temp109;
                    end if;
                  end if;
                end if;
              else
                cond7 := (sw(1) = sw(2));
                if cond7 then
                  temp112 := unsigned'("0010");
                  temp108 := temp112;
                  buffer_cond_call_unsigned <= temp108;
                  cond4 := (sw(0) = sw(1));
                  if cond4 then
                    temp109 := signed'("1111");
                    buffer_cond_call_signed <= temp109;
                  else
                    cond5 := (sw(1) = sw(2));
                    if cond5 then
                      temp110 := signed'("1110");
                      temp109 := temp110;
                      buffer_cond_call_signed <= temp109;
                    else
                      cond6 := (sw(2) = sw(3));
                      if cond6 then
                        temp111 := signed'("1101");
                        temp110 := temp111;
                        temp109 := temp110;
                        buffer_cond_call_signed <= temp109;
                      else
                        temp111 := signed'("0000");
                        temp110 := temp111;
                        temp109 := temp110;
                        buffer_cond_call_signed <= temp109;
                      end if;
                    end if;
                  end if;
                else
                  temp112 := unsigned'("0000");
                  temp108 := temp112;
                  buffer_cond_call_unsigned <= temp108;
                  cond4 := (sw(0) = sw(1));
                  if cond4 then
                    temp109 := signed'("1111");
                    buffer_cond_call_signed <= temp109;
                  else
                    cond5 := (sw(1) = sw(2));
                    if cond5 then
                      temp110 := signed'("1110");
                      temp109 := temp110;
                      buffer_cond_call_signed <= temp109;
                    else
                      cond6 := (sw(2) = sw(3));
                      if cond6 then
                        temp111 := signed'("1101");
                        temp110 := temp111;
                        temp109 := temp110;
                        buffer_cond_call_signed <= temp109;
                      else
                        temp111 := signed'("0000");
                        temp110 := temp111;
                        temp109 := temp110;
                        buffer_cond_call_signed <= temp109;
                      end if;
                    end if;
                  end if;
                end if;
              end if;
            end if;
          end if;
        else
          temp115 := "0000";
          temp106 := temp115;
          buffer_cond_call_bitvector <= temp106;
          cond2 := (sw(0) = sw(1));
          if cond2 then
            temp107 := sw;
            buffer_cond_call_bitvector_signal <= temp107;
            cond3 := (sw(0) = sw(1));
            if cond3 then
              temp108 := unsigned'("0001");
              buffer_cond_call_unsigned <= temp108;
              cond4 := (sw(0) = sw(1));
              if cond4 then
                temp109 := signed'("1111");
                buffer_cond_call_signed <= temp109;
              else
                cond5 := (sw(1) = sw(2));
                if cond5 then
                  temp110 := signed'("1110");
                  temp109 := temp110;
                  buffer_cond_call_signed <= temp109;
                else
                  cond6 := (sw(2) = sw(3));
                  if cond6 then
                    temp111 := signed'("1101");
                    temp110 := temp111;
                    temp109 := temp110;
                    buffer_cond_call_signed <= temp109;
                  else
                    temp111 := signed'("0000");
                    temp110 := temp111;
                    temp109 := temp110;
                    buffer_cond_call_signed <= temp109;
                  end if;
                end if;
              end if;
            else
              cond7 := (sw(1) = sw(2));
              if cond7 then
                temp112 := unsigned'("0010");
                temp108 := temp112;
                buffer_cond_call_unsigned <= temp108;
                cond4 := (sw(0) = sw(1));
                if cond4 then
                  temp109 := signed'("1111");
                  buffer_cond_call_signed <= temp109;
                else
                  cond5 := (sw(1) = sw(2));
                  if cond5 then
                    temp110 := signed'("1110");
                    temp109 := temp110;
                    buffer_cond_call_signed <= temp109;
                  else
                    cond6 := (sw(2) = sw(3));
                    if cond6 then
                      temp111 := signed'("1101");
                      temp110 := temp111;
                      temp109 := temp110;
                      buffer_cond_call_signed <= temp109;
                    else
                      temp111 := signed'("0000");
                      temp110 := temp111;
                      temp109 := temp110;
                      buffer_cond_call_signed <= temp109;
                    end if;
                  end if;
                end if;
              else
                temp112 := unsigned'("0000");
                temp108 := temp112;
                buffer_cond_call_unsigned <= temp108;
                cond4 := (sw(0) = sw(1));
                if cond4 then
                  temp109 := signed'("1111");
                  buffer_cond_call_signed <= temp109;
                else
                  cond5 := (sw(1) = sw(2));
                  if cond5 then
                    temp110 := signed'("1110");
                    temp109 := temp110;
                    buffer_cond_call_signed <= temp109;
                  else
                    cond6 := (sw(2) = sw(3));
                    if cond6 then
                      temp111 := signed'("1101");
                      temp110 := temp111;
                      temp109 := temp110;
                      buffer_cond_call_signed <= temp109;
                    else
                      temp111 := signed'("0000");
                      temp110 := temp111;
                      temp109 := temp110;
                      buffer_cond_call_signed <= temp109;
                    end if;
                  end if;
                end if;
              end if;
            end if;
          else
            cond8 := (sw(1) = sw(2));
            if cond8 then
              temp113 := not (sw);
              temp114 := temp113;
              temp107 := temp114;
              buffer_cond_call_bitvector_signal <= temp107;
              cond3 := (sw(0) = sw(1));
              if cond3 then
                temp108 := unsigned'("0001");
                buffer_cond_call_unsigned <= temp108;
                cond4 := (sw(0) = sw(1));
                if cond4 then
                  temp109 := signed'("1111");
                  buffer_cond_call_signed <= temp109;
                else
                  cond5 := (sw(1) = sw(2));
                  if cond5 then
                    temp110 := signed'("1110");
                    temp109 := temp110;
                    buffer_cond_call_signed <= temp109;
                  else
                    cond6 := (sw(2) = sw(3));
                    if cond6 then
                      temp111 := signed'("1101");
                      temp110 := temp111;
                      temp109 := temp110;
                      buffer_cond_call_signed <= temp109;
                    else
                      temp111 := signed'("0000");
                      temp110 := temp111;
                      temp109 := temp110;
                      buffer_cond_call_signed <= temp109;
                    end if;
                  end if;
                end if;
              else
                cond7 := (sw(1) = sw(2));
                if cond7 then
                  temp112 := unsigned'("0010");
                  temp108 := temp112;
                  buffer_cond_call_unsigned <= temp108;
                  cond4 := (sw(0) = sw(1));
                  if cond4 then
                    temp109 := signed'("1111");
                    buffer_cond_call_signed <= temp109;
                  else
                    cond5 := (sw(1) = sw(2));
                    if cond5 then
                      temp110 := signed'("1110");
                      temp109 := temp110;
                      buffer_cond_call_signed <= temp109;
                    else
                      cond6 := (sw(2) = sw(3));
                      if cond6 then
                        temp111 := signed'("1101");
                        temp110 := temp111;
                        temp109 := temp110;
                        buffer_cond_call_signed <= temp109;
                      else
                        temp111 := signed'("0000");
                        temp110 := temp111;
                        temp109 := temp110;
                        buffer_cond_call_signed <= temp109;
                      end if;
                    end if;
                  end if;
                else
                  temp112 := unsigned'("0000");
                  temp108 := temp112;
                  buffer_cond_call_unsigned <= temp108;
                  cond4 := (sw(0) = sw(1));
                  if cond4 then
                    temp109 := signed'("1111");
                    buffer_cond_call_signed <= temp109;
                  else
                    cond5 := (sw(1) = sw(2));
                    if cond5 then
                      temp110 := signed'("1110");
                      temp109 := temp110;
                      buffer_cond_call_signed <= temp109;
                    else
                      cond6 := (sw(2) = sw(3));
                      if cond6 then
                        temp111 := signed'("1101");
                        temp110 := temp111;
                        temp109 := temp110;
                        buffer_cond_call_signed <= temp109;
                      else
                        temp111 := signed'("0000");
                        temp110 := temp111;
                        temp109 := temp110;
                        buffer_cond_call_signed <= temp109;
                      end if;
                    end if;
                  end if;
                end if;
              end if;
            else
              temp114 := "1111";
              temp107 := temp114;
              buffer_cond_call_bitvector_signal <= temp107;
              cond3 := (sw(0) = sw(1));
              if cond3 then
                temp108 := unsigned'("0001");
                buffer_cond_call_unsigned <= temp108;
                cond4 := (sw(0) = sw(1));
                if cond4 then
                  temp109 := signed'("1111");
                  buffer_cond_call_signed <= temp109;
                else
                  cond5 := (sw(1) = sw(2));
                  if cond5 then
                    temp110 := signed'("1110");
                    temp109 := temp110;
                    buffer_cond_call_signed <= temp109;
                  else
                    cond6 := (sw(2) = sw(3));
                    if cond6 then
                      temp111 := signed'("1101");
                      temp110 := temp111;
                      temp109 := temp110;
                      buffer_cond_call_signed <= temp109;
                    else
                      temp111 := signed'("0000");
                      temp110 := temp111;
                      temp109 := temp110;
                      buffer_cond_call_signed <= temp109;
                    end if;
                  end if;
                end if;
              else
                cond7 := (sw(1) = sw(2));
                if cond7 then
                  temp112 := unsigned'("0010");
                  temp108 := temp112;
                  buffer_cond_call_unsigned <= temp108;
                  cond4 := (sw(0) = sw(1));
                  if cond4 then
                    temp109 := signed'("1111");
                    buffer_cond_call_signed <= temp109;
                  else
                    cond5 := (sw(1) = sw(2));
                    if cond5 then
                      temp110 := signed'("1110");
                      temp109 := temp110;
                      buffer_cond_call_signed <= temp109;
                    else
                      cond6 := (sw(2) = sw(3));
                      if cond6 then
                        temp111 := signed'("1101");
                        temp110 := temp111;
                        temp109 := temp110;
                        buffer_cond_call_signed <= temp109;
                      else
                        temp111 := signed'("0000");
                        temp110 := temp111;
                        temp109 := temp110;
                        buffer_cond_call_signed <= temp109;
                      end if;
                    end if;
                  end if;
                else
                  temp112 := unsigned'("0000");
                  temp108 := temp112;
                  buffer_cond_call_unsigned <= temp108;
                  cond4 := (sw(0) = sw(1));
                  if cond4 then
                    temp109 := signed'("1111");
                    buffer_cond_call_signed <= temp109;
                  else
                    cond5 := (sw(1) = sw(2));
                    if cond5 then
                      temp110 := signed'("1110");
                      temp109 := temp110;
                      buffer_cond_call_signed <= temp109;
                    else
                      cond6 := (sw(2) = sw(3));
                      if cond6 then
                        temp111 := signed'("1101");
                        temp110 := temp111;
                        temp109 := temp110;
                        buffer_cond_call_signed <= temp109;
                      else
                        temp111 := signed'("0000");
                        temp110 := temp111;
                        temp109 := temp110;
                        buffer_cond_call_signed <= temp109;
                      end if;
                    end if;
                  end if;
                end if;
              end if;
            end if;
          end if;
        end if;
      end if;
    end if;
  end process;
end architecture arch_test_if_expr;