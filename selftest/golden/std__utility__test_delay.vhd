library ieee;
use ieee.std_logic_1164.all;
use ieee.numeric_std.all;


entity test_delay is
  port (
    clk : in std_logic;
    input : in std_logic_vector(15 downto 0);
    enable : in std_logic;
    delay_0 : out std_logic_vector(15 downto 0);
    delay_1 : out std_logic_vector(15 downto 0);
    delay_2 : out std_logic_vector(15 downto 0);
    delay_3 : out std_logic_vector(15 downto 0);
    delay_en_0 : out std_logic_vector(15 downto 0);
    delay_en_1 : out std_logic_vector(15 downto 0);
    delay_en_2 : out std_logic_vector(15 downto 0);
    delay_en_3 : out std_logic_vector(15 downto 0);
    delay_sum : out unsigned(15 downto 0);
    delay_en_sum : out unsigned(15 downto 0)
    );
end test_delay;


architecture arch_test_delay of test_delay is
  function cohdl_bool_to_std_logic(inp: boolean) return std_logic is
  begin
    if inp then
      return('1');
    else
      return('0');
    end if;
  end function cohdl_bool_to_std_logic;
  signal buffer_delay_0 : std_logic_vector(15 downto 0);
  signal buffer_delay_1 : std_logic_vector(15 downto 0);
  signal buffer_delay_2 : std_logic_vector(15 downto 0);
  signal buffer_delay_3 : std_logic_vector(15 downto 0);
  signal buffer_delay_en_0 : std_logic_vector(15 downto 0);
  signal buffer_delay_en_1 : std_logic_vector(15 downto 0);
  signal buffer_delay_en_2 : std_logic_vector(15 downto 0);
  signal buffer_delay_en_3 : std_logic_vector(15 downto 0);
  signal buffer_delay_sum : unsigned(15 downto 0);
  signal buffer_delay_en_sum : unsigned(15 downto 0);
  signal delayline_1 : std_logic_vector(15 downto 0) := "0000000000000000";
  signal delayline_2 : std_logic_vector(15 downto 0) := "1111111111111111";
  signal delayline_21 : std_logic_vector(15 downto 0) := "1111111111111111";
  signal delayline_3 : std_logic_vector(15 downto 0) := "0001001000110100";
  signal delayline_31 : std_logic_vector(15 downto 0) := "0001001000110100";
  signal delayline_32 : std_logic_vector(15 downto 0) := "0001001000110100";
  signal delayline_4 : std_logic_vector(15 downto 0) := "0001001000110100";
  signal delayline_41 : std_logic_vector(15 downto 0) := "0001001000110100";
  signal delayline_42 : std_logic_vector(15 downto 0) := "0001001000110100";
  signal delayline_6 : std_logic_vector(15 downto 0) := "1111111111111111";
  signal delayline_7 : std_logic_vector(15 downto 0) := "0000000000000000";
  signal delayline_71 : std_logic_vector(15 downto 0) := "0000000000000000";
  signal delayline_8 : std_logic_vector(15 downto 0) := "1010101111001101";
  signal delayline_81 : std_logic_vector(15 downto 0) := "1010101111001101";
  signal delayline_82 : std_logic_vector(15 downto 0) := "1010101111001101";
  signal delayline_9 : std_logic_vector(15 downto 0) := "1010101111001101";
  signal delayline_91 : std_logic_vector(15 downto 0) := "1010101111001101";
  signal delayline_92 : std_logic_vector(15 downto 0) := "1010101111001101";
begin
  
  -- CONCURRENT BLOCK (buffer assignment)
  delay_0 <= buffer_delay_0;
  delay_1 <= buffer_delay_1;
  delay_2 <= buffer_delay_2;
  delay_3 <= buffer_delay_3;
  delay_en_0 <= buffer_delay_en_0;
  delay_en_1 <= buffer_delay_en_1;
  delay_en_2 <= buffer_delay_en_2;
  delay_en_3 <= buffer_delay_en_3;
  delay_sum <= buffer_delay_sum;
  delay_en_sum <= buffer_delay_en_sum;
  

  process1: process(clk)
    variable a : unsigned(15 downto 0);
    variable a1 : unsigned(15 downto 0);
    variable temp : unsigned(15 downto 0);
    variable temp1 : boolean;
    variable a2 : unsigned(15 downto 0);
    variable a3 : unsigned(15 downto 0);
    variable temp2 : unsigned(15 downto 0);
  begin
    if rising_edge(clk) then
      buffer_delay_0 <= input;
      delayline_1 <= input;
      buffer_delay_1 <= delayline_1;
      delayline_2 <= input;
      delayline_21 <= delayline_2;
      buffer_delay_2 <= delayline_21;
      delayline_3 <= input;
      delayline_31 <= delayline_3;
      delayline_32 <= delayline_31;
      buffer_delay_3 <= delayline_32;
      delayline_4 <= input;
      delayline_41 <= delayline_4;
      delayline_42 <= delayline_41;
      a := (unsigned(input)) + (unsigned(delayline_4));
      a1 := (a) + (unsigned(delayline_41));
      temp := (a1) + (unsigned(delayline_42));
      buffer_delay_sum <= temp;
      temp1 := enable = '1';
      if temp1 then
        buffer_delay_en_0 <= input;
        delayline_6 <= input;
        buffer_delay_en_1 <= delayline_6;
        delayline_7 <= input;
        delayline_71 <= delayline_7;
        buffer_delay_en_2 <= delayline_71;
        delayline_8 <= input;
        delayline_81 <= delayline_8;
        delayline_82 <= delayline_81;
        buffer_delay_en_3 <= delayline_82;
        delayline_9 <= input;
        delayline_91 <= delayline_9;
        delayline_92 <= delayline_91;
        a2 := (unsigned(input)) + (unsigned(delayline_9));
        a3 := (a2) + (unsigned(delayline_91));
        temp2 := (a3) + (unsigned(delayline_92));
        buffer_delay_en_sum <= temp2;
      end if;
    end if;
  end process;
end architecture arch_test_delay;