library ieee;
use ieee.std_logic_1164.all;
use ieee.numeric_std.all;


entity test_leading_trailing is
  port (
    input : in signed(0 downto 0);
    leading_0 : out unsigned(0 downto 0);
    leading_1 : out unsigned(0 downto 0);
    trailing_0 : out unsigned(0 downto 0);
    trailing_1 : out unsigned(0 downto 0)
    );
end test_leading_trailing;


architecture arch_test_leading_trailing of test_leading_trailing is
  function cohdl_bool_to_std_logic(inp: boolean) return std_logic is
  begin
    if inp then
      return('1');
    else
      return('0');
    end if;
  end function cohdl_bool_to_std_logic;
  signal buffer_leading_0 : unsigned(0 downto 0);
  signal buffer_leading_1 : unsigned(0 downto 0);
  signal buffer_trailing_0 : unsigned(0 downto 0);
  signal buffer_trailing_1 : unsigned(0 downto 0);
begin
  
  -- CONCURRENT BLOCK (buffer assignment)
  leading_0 <= buffer_leading_0;
  leading_1 <= buffer_leading_1;
  trailing_0 <= buffer_trailing_0;
  trailing_1 <= buffer_trailing_1;
  

  logic_assign: process(input)
    variable seq : std_logic_vector(1 downto 0);
    variable temp : boolean;
    variable arg : unsigned(0 downto 0);
    variable seq1 : std_logic_vector(1 downto 0);
    variable temp1 : boolean;
    variable arg1 : unsigned(0 downto 0);
    variable temp2 : boolean;
    variable arg2 : unsigned(0 downto 0);
    variable temp3 : boolean;
    variable arg3 : unsigned(0 downto 0);
  begin
    seq := (input(0)) & (input(0));
    temp := (seq(0) /= '0');
    case temp is
      when true =>
        arg := unsigned'("0");
      when others =>
        arg := unsigned'("1");
    end case;
    buffer_leading_0 <= arg;
    seq1 := (input(0)) & (input(0));
    temp1 := (seq1(0) /= '1');
    case temp1 is
      when true =>
        arg1 := unsigned'("0");
      when others =>
        arg1 := unsigned'("1");
    end case;
    buffer_leading_1 <= arg1;
    temp2 := (input(0) /= '0');
    case temp2 is
      when true =>
        arg2 := unsigned'("0");
      when others =>
        arg2 := unsigned'("1");
    end case;
    buffer_trailing_0 <= arg2;
    temp3 := (input(0) /= '1');
    case temp3 is
      when true =>
        arg3 := unsigned'("0");
      when others =>
        arg3 := unsigned'("1");
    end case;
    buffer_trailing_1 <= arg3;
  end process;
end architecture arch_test_leading_trailing;