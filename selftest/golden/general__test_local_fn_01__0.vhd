library ieee;
use ieee.std_logic_1164.all;
use ieee.numeric_std.all;


entity test_local_fn_01 is
  port (
    inp_a : in std_logic_vector(7 downto 0);
    inp_b : in std_logic_vector(7 downto 0);
    result_1 : out std_logic_vector(7 downto 0);
    result_2 : out std_logic_vector(7 downto 0);
    result_3 : out std_logic_vector(7 downto 0)
    );
end test_local_fn_01;


architecture arch_test_local_fn_01 of test_local_fn_01 is
  function cohdl_bool_to_std_logic(inp: boolean) return std_logic is
  begin
    if inp then
      return('1');
    else
      return('0');
    end if;
  end function cohdl_bool_to_std_logic;
  signal buffer_result_1 : std_logic_vector(7 downto 0);
  signal buffer_result_2 : std_logic_vector(7 downto 0);
  signal buffer_result_3 : std_logic_vector(7 downto 0);
  signal temp : std_logic_vector(7 downto 0);
  signal temp1 : std_logic_vector(7 downto 0);
  signal temp2 : std_logic_vector(7 downto 0);
begin
  
  -- CONCURRENT BLOCK (buffer assignment)
  result_1 <= buffer_result_1;
  result_2 <= buffer_result_2;
  result_3 <= buffer_result_3;
  
  -- CONCURRENT BLOCK (logic)
  temp <= (inp_a) and (inp_b);
  buffer_result_1 <= temp;
  temp1 <= (inp_a) or (inp_b);
  buffer_result_2 <= temp1;
  temp2 <= (inp_a) xor (inp_b);
  buffer_result_3 <= temp2;
end architecture arch_test_local_fn_01;