library ieee;
use ieee.std_logic_1164.all;
use ieee.numeric_std.all;


entity test_overload_03 is
  port (
    a : in std_logic;
    b : out std_logic
    );
end test_overload_03;


architecture arch_test_overload_03 of test_overload_03 is
  function cohdl_bool_to_std_logic(inp: boolean) return std_logic is
  begin
    if inp then
      return('1');
    else
      return('0');
    end if;
  end function cohdl_bool_to_std_logic;
  signal buffer_b : std_logic;
begin
  
  -- CONCURRENT BLOCK (buffer assignment)
  b <= buffer_b;
  
  -- CONCURRENT BLOCK (logic)
  buffer_b <= a;
end architecture arch_test_overload_03;