library ieee;
use ieee.std_logic_1164.all;
use ieee.numeric_std.all;


entity test_starred_01 is
  port (
    inp1 : in std_logic_vector(3 downto 0);
    inp2 : in std_logic_vector(3 downto 0);
    inp3 : in std_logic_vector(3 downto 0);
    inp4 : in std_logic_vector(3 downto 0);
    output1 : out std_logic_vector(3 downto 0);
    output2 : out std_logic_vector(3 downto 0);
    output3 : out std_logic_vector(3 downto 0);
    output4 : out std_logic_vector(3 downto 0)
    );
end test_starred_01;


architecture arch_test_starred_01 of test_starred_01 is
  function cohdl_bool_to_std_logic(inp: boolean) return std_logic is
  begin
    if inp then
      return('1');
    else
      return('0');
    end if;
  end function cohdl_bool_to_std_logic;
  signal buffer_output1 : std_logic_vector(3 downto 0);
  signal buffer_output2 : std_logic_vector(3 downto 0);
  signal buffer_output3 : std_logic_vector(3 downto 0);
  signal buffer_output4 : std_logic_vector(3 downto 0);
  signal temp : std_logic_vector(3 downto 0);
  signal temp1 : std_logic_vector(3 downto 0);
  signal temp2 : std_logic_vector(3 downto 0);
  signal temp3 : std_logic_vector(3 downto 0);
  signal temp4 : std_logic_vector(3 downto 0);
  signal temp5 : std_logic_vector(3 downto 0);
  signal temp6 : std_logic_vector(3 downto 0);
  signal temp7 : std_logic_vector(3 downto 0);
  signal temp8 : std_logic_vector(3 downto 0);
  signal temp9 : std_logic_vector(3 downto 0);
  signal temp10 : std_logic_vector(3 downto 0);
  signal temp11 : std_logic_vector(3 downto 0);
begin
  
  -- CONCURRENT BLOCK (buffer assignment)
  output1 <= buffer_output1;
  output2 <= buffer_output2;
  output3 <= buffer_output3;
  output4 <= buffer_output4;
  
  -- CONCURRENT BLOCK (proc)
  temp <= (inp1) and (inp2);
  temp1 <= (temp) and (inp3);
  temp2 <= (temp1) and (inp4);
  buffer_output1 <= temp2;
  temp3 <= (inp1) or (inp2);
  temp4 <= (temp3) or (inp3);
  temp5 <= (temp4) or (inp4);
  buffer_output2 <= temp5;
  temp6 <= (inp1) xor (inp2);
  temp7 <= (temp6) xor (inp3);
  temp8 <= (temp7) xor (inp4);
  buffer_output3 <= temp8;
  temp9 <= (inp1) and (inp2);
  temp10 <= (inp3) xor (inp4);
  temp11 <= (temp9) or (temp10);
  buffer_output4 <= temp11;
end architecture arch_test_starred_01;