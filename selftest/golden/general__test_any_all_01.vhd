library ieee;
use ieee.std_logic_1164.all;
use ieee.numeric_std.all;


entity test_any_all_01 is
  port (
    inp_a : in std_logic;
    inp_b : in std_logic;
    inp_c : in std_logic;
    inp_bv : inout std_logic_vector(3 downto 0);
    out_any_abc : out std_logic;
    out_all_abc : out std_logic;
    out_any_list : out std_logic;
    out_all_list : out std_logic;
    out_any_bv : out std_logic;
    out_all_bv : inout std_logic
    );
end test_any_all_01;


architecture arch_test_any_all_01 of test_any_all_01 is
  function cohdl_bool_to_std_logic(inp: boolean) return std_logic is
  begin
    if inp then
      return('1');
    else
      return('0');
    end if;
  end function cohdl_bool_to_std_logic;
  signal buffer_out_any_abc : std_logic;
  signal buffer_out_all_abc : std_logic;
  signal buffer_out_any_list : std_logic;
  signal buffer_out_all_list : std_logic;
  signal buffer_out_any_bv : std_logic;
  signal temp : boolean;
  signal temp1 : boolean;
  signal temp2 : boolean;
  signal temp3 : boolean;
  signal temp4 : boolean;
  signal temp5 : boolean;
begin
  
  -- CONCURRENT BLOCK (buffer assignment)
  out_any_abc <= buffer_out_any_abc;
  out_all_abc <= buffer_out_all_abc;
  out_any_list <= buffer_out_any_list;
  out_all_list <= buffer_out_all_list;
  out_any_bv <= buffer_out_any_bv;
  
  -- CONCURRENT BLOCK (logic)
  temp <= inp_a = '1' or inp_b = '1' or inp_c = '1';
  buffer_out_any_abc <= cohdl_bool_to_std_logic(temp);
  temp1 <= inp_a = '1' and inp_b = '1' and inp_c = '1';
  buffer_out_all_abc <= cohdl_bool_to_std_logic(temp1);
  temp2 <= inp_a = '1' or inp_b = '1' or inp_c = '1' or (inp_bv /= "0000");
  buffer_out_any_list <= cohdl_bool_to_std_logic(temp2);
  temp3 <= inp_a = '1' and inp_b = '1' and inp_c = '1' and (inp_bv /= "0000");
  buffer_out_all_list <= cohdl_bool_to_std_logic(temp3);
  temp4 <= inp_bv(0) = '1' or inp_bv(1) = '1' or inp_bv(2) = '1' or inp_bv(3) = '1';
  buffer_out_any_bv <= cohdl_bool_to_std_logic(temp4);
  temp5 <= inp_bv(0) = '1' and inp_bv(1) = '1' and inp_bv(2) = '1' and inp_bv(3) = '1';
  out_all_bv <= cohdl_bool_to_std_logic(temp5);
end architecture arch_test_any_all_01;