library ieee;
use ieee.std_logic_1164.all;
use ieee.numeric_std.all;


entity test_clamp is
  port (
    inp_val : in std_logic_vector(7 downto 0);
    inp_low : in std_logic_vector(7 downto 0);
    inp_high : in std_logic_vector(7 downto 0);
    out_a : out std_logic_vector(7 downto 0);
    out_b : out std_logic_vector(7 downto 0);
    out_c : out std_logic_vector(7 downto 0);
    out_d : out std_logic_vector(7 downto 0)
    );
end test_clamp;


architecture arch_test_clamp of test_clamp is
  function cohdl_bool_to_std_logic(inp: boolean) return std_logic is
  begin
    if inp then
      return('1');
    else
      return('0');
    end if;
  end function cohdl_bool_to_std_logic;
  signal buffer_out_a : std_logic_vector(7 downto 0);
  signal buffer_out_b : std_logic_vector(7 downto 0);
  signal buffer_out_c : std_logic_vector(7 downto 0);
  signal buffer_out_d : std_logic_vector(7 downto 0);
  signal temp : unsigned(7 downto 0);
  signal temp1 : boolean;
  signal temp2 : boolean;
  signal temp3 : unsigned(7 downto 0);
  signal temp4 : boolean;
  signal temp5 : boolean;
  signal temp6 : unsigned(7 downto 0);
  signal temp7 : signed(7 downto 0);
  signal temp8 : boolean;
  signal temp9 : boolean;
  signal temp10 : signed(7 downto 0);
  signal temp11 : boolean;
  signal temp12 : boolean;
  signal temp13 : signed(7 downto 0);
  signal temp14 : unsigned(7 downto 0);
  signal temp15 : boolean;
  signal temp16 : boolean;
  signal temp17 : unsigned(7 downto 0);
  signal temp18 : boolean;
  signal temp19 : boolean;
  signal temp20 : unsigned(7 downto 0);
  signal temp21 : unsigned(7 downto 0);
  signal temp22 : boolean;
  signal temp23 : boolean;
  signal temp24 : unsigned(7 downto 0);
  signal temp25 : boolean;
  signal temp26 : boolean;
  signal temp27 : unsigned(7 downto 0);
begin
  
  -- CONCURRENT BLOCK (buffer assignment)
  out_a <= buffer_out_a;
  out_b <= buffer_out_b;
  out_c <= buffer_out_c;
  out_d <= buffer_out_d;
  
  -- CONCURRENT BLOCK (logic)
  temp <= unsigned(inp_val);
  temp1 <= (unsigned(inp_val) > unsigned'("00100101"));
  temp2 <= temp1;
  with temp2 select temp3 <=
    unsigned'("00100101") when true,
    temp when others;
  temp4 <= (unsigned(inp_val) < unsigned'("00000000"));
  temp5 <= temp4;
  with temp5 select temp6 <=
    unsigned'("00000000") when true,
    temp3 when others;
  buffer_out_a <= std_logic_vector(temp6);
  temp7 <= signed(inp_val);
  temp8 <= (signed(inp_val) > signed'("01101111"));
  temp9 <= temp8;
  with temp9 select temp10 <=
    signed'("01101111") when true,
    temp7 when others;
  temp11 <= (signed(inp_val) < signed'("11111101"));
  temp12 <= temp11;
  with temp12 select temp13 <=
    signed'("11111101") when true,
    temp10 when others;
  buffer_out_b <= std_logic_vector(temp13);
  temp14 <= unsigned(inp_val);
  temp15 <= (temp14 > unsigned'("11001001"));
  temp16 <= temp15;
  with temp16 select temp17 <=
    unsigned'("11001001") when true,
    temp14 when others;
  temp18 <= (temp14 < unsigned'("01001101"));
  temp19 <= temp18;
  with temp19 select temp20 <=
    unsigned'("01001101") when true,
    temp17 when others;
  buffer_out_c <= std_logic_vector(temp20);
  temp21 <= unsigned(inp_val);
  temp22 <= (temp21 < unsigned'("10010110"));
  temp23 <= temp22;
  with temp23 select temp24 <=
    unsigned'("10010110") when true,
    temp21 when others;
  temp25 <= (temp21 > unsigned'("00001101"));
  temp26 <= temp25;
  with temp26 select temp27 <=
    unsigned'("00001101") when true,
    temp24 when others;
  buffer_out_d <= std_logic_vector(temp27);
end architecture arch_test_clamp;