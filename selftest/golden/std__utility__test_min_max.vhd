library ieee;
use ieee.std_logic_1164.all;
use ieee.numeric_std.all;


entity test_min_max is
  port (
    val_a : in std_logic_vector(7 downto 0);
    val_b : in signed(7 downto 0);
    val_c : in unsigned(7 downto 0);
    val_d : in std_logic_vector(7 downto 0);
    val_e : in signed(7 downto 0);
    val_f : in unsigned(7 downto 0);
    min_1 : out std_logic_vector(7 downto 0);
    max_1 : out std_logic_vector(7 downto 0);
    min_2 : out std_logic_vector(7 downto 0);
    max_2 : out std_logic_vector(7 downto 0);
    min_2idx : out std_logic_vector(1 downto 0);
    max_2idx : out std_logic_vector(1 downto 0);
    min_2elem : out std_logic_vector(7 downto 0);
    max_2elem : out std_logic_vector(7 downto 0);
    min_2elem_idx : out std_logic_vector(1 downto 0);
    max_2elem_idx : out std_logic_vector(1 downto 0);
    min_3 : out std_logic_vector(7 downto 0);
    max_3 : out std_logic_vector(7 downto 0);
    min_3idx : out std_logic_vector(0 downto 0);
    max_3idx : out std_logic_vector(0 downto 0);
    min_3elem : out std_logic_vector(7 downto 0);
    max_3elem : out std_logic_vector(7 downto 0);
    min_3elem_idx : out std_logic_vector(0 downto 0);
    max_3elem_idx : out std_logic_vector(0 downto 0);
    min_4 : out std_logic_vector(7 downto 0);
    max_4 : out std_logic_vector(7 downto 0);
    min_4n : out unsigned(2 downto 0);
    max_4n : out unsigned(2 downto 0);
    min_4idx : out std_logic_vector(2 downto 0);
    max_4idx : out std_logic_vector(2 downto 0);
    min_4elem : out std_logic_vector(7 downto 0);
    max_4elem : out std_logic_vector(7 downto 0);
    min_4elem_idx : out std_logic_vector(2 downto 0);
    max_4elem_idx : out std_logic_vector(2 downto 0);
    min_5 : out std_logic_vector(7 downto 0);
    max_5 : out std_logic_vector(7 downto 0);
    min_5n : out unsigned(2 downto 0);
    max_5n : out unsigned(2 downto 0);
    min_5idx : out std_logic_vector(2 downto 0);
    max_5idx : out std_logic_vector(2 downto 0);
    min_5elem : out std_logic_vector(7 downto 0);
    max_5elem : out std_logic_vector(7 downto 0);
    min_5elem_idx : out std_logic_vector(2 downto 0);
    max_5elem_idx : out std_logic_vector(2 downto 0)
    );
end test_min_max;


architecture arch_test_min_max of test_min_max is
  function cohdl_bool_to_std_logic(inp: boolean) return std_logic is
  begin
    if inp then
      return('1');
    else
      return('0');
    end if;
  end function cohdl_bool_to_std_logic;
  signal buffer_min_1 : std_logic_vector(7 downto 0);
  signal buffer_max_1 : std_logic_vector(7 downto 0);
  signal buffer_min_2 : std_logic_vector(7 downto 0);
  signal buffer_max_2 : std_logic_vector(7 downto 0);
  signal buffer_min_2idx : std_logic_vector(1 downto 0);
  signal buffer_max_2idx : std_logic_vector(1 downto 0);
  signal buffer_min_2elem : std_logic_vector(7 downto 0);
  signal buffer_max_2elem : std_logic_vector(7 downto 0);
  signal buffer_min_2elem_idx : std_logic_vector(1 downto 0);
  signal buffer_max_2elem_idx : std_logic_vector(1 downto 0);
  signal buffer_min_3 : std_logic_vector(7 downto 0);
  signal buffer_max_3 : std_logic_vector(7 downto 0);
  signal buffer_min_3idx : std_logic_vector(0 downto 0);
  signal buffer_max_3idx : std_logic_vector(0 downto 0);
  signal buffer_min_3elem : std_logic_vector(7 downto 0);
  signal buffer_max_3elem : std_logic_vector(7 downto 0);
  signal buffer_min_3elem_idx : std_logic_vector(0 downto 0);
  signal buffer_max_3elem_idx : std_logic_vector(0 downto 0);
  signal buffer_min_4 : std_logic_vector(7 downto 0);
  signal buffer_max_4 : std_logic_vector(7 downto 0);
  signal buffer_min_4n : unsigned(2 downto 0);
  signal buffer_max_4n : unsigned(2 downto 0);
  signal buffer_min_4idx : std_logic_vector(2 downto 0);
  signal buffer_max_4idx : std_logic_vector(2 downto 0);
  signal buffer_min_4elem : std_logic_vector(7 downto 0);
  signal buffer_max_4elem : std_logic_vector(7 downto 0);
  signal buffer_min_4elem_idx : std_logic_vector(2 downto 0);
  signal buffer_max_4elem_idx : std_logic_vector(2 downto 0);
  signal buffer_min_5 : std_logic_vector(7 downto 0);
  signal buffer_max_5 : std_logic_vector(7 downto 0);
  signal buffer_min_5n : unsigned(2 downto 0);
  signal buffer_max_5n : unsigned(2 downto 0);
  signal buffer_min_5idx : std_logic_vector(2 downto 0);
  signal buffer_max_5idx : std_logic_vector(2 downto 0);
  signal buffer_min_5elem : std_logic_vector(7 downto 0);
  signal buffer_max_5elem : std_logic_vector(7 downto 0);
  signal buffer_min_5elem_idx : std_logic_vector(2 downto 0);
  signal buffer_max_5elem_idx : std_logic_vector(2 downto 0);
  signal temp : boolean;
  signal temp1 : boolean;
  signal temp2 : unsigned(7 downto 0);
  signal temp3 : boolean;
  signal temp4 : boolean;
  signal temp5 : unsigned(7 downto 0);
  signal temp6 : boolean;
  signal temp7 : boolean;
  signal temp8 : signed(7 downto 0);
  signal temp9 : boolean;
  signal temp10 : boolean;
  signal temp11 : unsigned(7 downto 0);
  signal temp12 : boolean;
  signal temp13 : boolean;
  signal temp14 : unsigned(1 downto 0);
  signal temp15 : boolean;
  signal temp16 : boolean;
  signal temp17 : unsigned(1 downto 0);
  signal temp18 : boolean;
  signal temp19 : boolean;
  signal temp20 : unsigned(1 downto 0);
  signal temp21 : signed(7 downto 0);
  signal temp22 : boolean;
  signal temp23 : boolean;
  signal temp24 : unsigned(1 downto 0);
  signal temp25 : unsigned(7 downto 0);
  signal temp26 : std_logic_vector(7 downto 0);
  signal temp27 : std_logic_vector(7 downto 0);
  signal temp28 : std_logic_vector(7 downto 0);
  signal temp29 : std_logic_vector(7 downto 0);
  signal temp30 : std_logic_vector(7 downto 0);
  signal temp31 : std_logic_vector(7 downto 0);
  signal temp32 : boolean;
  signal temp33 : boolean;
  signal temp34 : unsigned(2 downto 0);
  signal a : signed(7 downto 0);
  signal temp35 : boolean;
  signal temp36 : boolean;
  signal temp37 : unsigned(2 downto 0);
  signal b : signed(7 downto 0);
  signal temp38 : boolean;
  signal temp39 : boolean;
  signal temp40 : unsigned(2 downto 0);
  signal b1 : signed(7 downto 0);
  signal temp41 : boolean;
  signal temp42 : boolean;
  signal temp43 : unsigned(2 downto 0);
  signal a1 : signed(7 downto 0);
  signal temp44 : boolean;
  signal temp45 : boolean;
  signal temp46 : unsigned(2 downto 0);
  signal temp47 : signed(7 downto 0);
  signal temp48 : boolean;
  signal temp49 : boolean;
  signal temp50 : unsigned(2 downto 0);
  signal a2 : signed(7 downto 0);
  signal temp51 : boolean;
  signal temp52 : boolean;
  signal temp53 : unsigned(2 downto 0);
  signal b2 : signed(7 downto 0);
  signal temp54 : boolean;
  signal temp55 : boolean;
  signal temp56 : unsigned(2 downto 0);
  signal b3 : signed(7 downto 0);
  signal temp57 : boolean;
  signal temp58 : boolean;
  signal temp59 : unsigned(2 downto 0);
  signal a3 : signed(7 downto 0);
  signal temp60 : boolean;
  signal temp61 : boolean;
  signal temp62 : unsigned(2 downto 0);
  signal temp63 : signed(7 downto 0);
  signal temp64 : boolean;
  signal temp65 : boolean;
  signal temp66 : unsigned(2 downto 0);
  signal a4 : signed(7 downto 0);
  signal temp67 : boolean;
  signal temp68 : boolean;
  signal temp69 : unsigned(2 downto 0);
  signal b4 : signed(7 downto 0);
  signal temp70 : boolean;
  signal temp71 : boolean;
  signal temp72 : unsigned(2 downto 0);
  signal b5 : signed(7 downto 0);
  signal temp73 : boolean;
  signal temp74 : boolean;
  signal temp75 : unsigned(2 downto 0);
  signal a5 : signed(7 downto 0);
  signal temp76 : boolean;
  signal temp77 : boolean;
  signal temp78 : unsigned(2 downto 0);
  signal temp79 : boolean;
  signal temp80 : boolean;
  signal temp81 : unsigned(2 downto 0);
  signal a6 : signed(7 downto 0);
  signal temp82 : boolean;
  signal temp83 : boolean;
  signal temp84 : unsigned(2 downto 0);
  signal b6 : signed(7 downto 0);
  signal temp85 : boolean;
  signal temp86 : boolean;
  signal temp87 : unsigned(2 downto 0);
  signal b7 : signed(7 downto 0);
  signal temp88 : boolean;
  signal temp89 : boolean;
  signal temp90 : unsigned(2 downto 0);
  signal a7 : signed(7 downto 0);
  signal temp91 : boolean;
  signal temp92 : boolean;
  signal temp93 : unsigned(2 downto 0);
  signal temp94 : boolean;
  signal temp95 : boolean;
  signal temp96 : unsigned(2 downto 0);
  signal temp97 : unsigned(2 downto 0);
  signal a8 : signed(7 downto 0);
  signal temp98 : boolean;
  signal temp99 : boolean;
  signal temp100 : unsigned(2 downto 0);
  signal temp101 : unsigned(2 downto 0);
  signal b8 : signed(7 downto 0);
  signal temp102 : boolean;
  signal temp103 : boolean;
  signal temp104 : unsigned(2 downto 0);
  signal temp105 : unsigned(2 downto 0);
  signal b9 : signed(7 downto 0);
  signal temp106 : boolean;
  signal temp107 : boolean;
  signal temp108 : unsigned(2 downto 0);
  signal temp109 : unsigned(2 downto 0);
  signal a9 : signed(7 downto 0);
  signal temp110 : boolean;
  signal temp111 : boolean;
  signal temp112 : unsigned(2 downto 0);
  signal temp113 : signed(7 downto 0);
  signal temp114 : boolean;
  signal temp115 : boolean;
  signal temp116 : unsigned(2 downto 0);
  signal temp117 : unsigned(2 downto 0);
  signal a10 : signed(7 downto 0);
  signal temp118 : boolean;
  signal temp119 : boolean;
  signal temp120 : unsigned(2 downto 0);
  signal temp121 : unsigned(2 downto 0);
  signal b10 : signed(7 downto 0);
  signal temp122 : boolean;
  signal temp123 : boolean;
  signal temp124 : unsigned(2 downto 0);
  signal temp125 : unsigned(2 downto 0);
  signal b11 : signed(7 downto 0);
  signal temp126 : boolean;
  signal temp127 : boolean;
  signal temp128 : unsigned(2 downto 0);
  signal temp129 : unsigned(2 downto 0);
  signal a11 : signed(7 downto 0);
  signal temp130 : boolean;
  signal temp131 : boolean;
  signal temp132 : unsigned(2 downto 0);
  signal temp133 : signed(7 downto 0);
  signal temp134 : signed(7 downto 0);
  signal temp135 : signed(7 downto 0);
  signal temp136 : boolean;
  signal temp137 : boolean;
  signal temp138 : unsigned(2 downto 0);
  signal a12 : signed(7 downto 0);
  signal temp139 : signed(7 downto 0);
  signal temp140 : signed(7 downto 0);
  signal temp141 : boolean;
  signal temp142 : boolean;
  signal temp143 : unsigned(2 downto 0);
  signal b12 : signed(7 downto 0);
  signal b13 : signed(7 downto 0);
  signal temp144 : signed(7 downto 0);
  signal temp145 : signed(7 downto 0);
  signal temp146 : boolean;
  signal temp147 : boolean;
  signal temp148 : unsigned(2 downto 0);
  signal a13 : signed(7 downto 0);
  signal temp149 : signed(7 downto 0);
  signal temp150 : signed(7 downto 0);
  signal temp151 : boolean;
  signal temp152 : boolean;
  signal temp153 : unsigned(2 downto 0);
  signal temp154 : signed(7 downto 0);
  signal temp155 : signed(7 downto 0);
  signal temp156 : signed(7 downto 0);
  signal temp157 : boolean;
  signal temp158 : boolean;
  signal temp159 : unsigned(2 downto 0);
  signal temp160 : signed(7 downto 0);
  signal temp161 : signed(7 downto 0);
  signal temp162 : signed(7 downto 0);
  signal temp163 : boolean;
  signal temp164 : boolean;
  signal temp165 : unsigned(2 downto 0);
  signal temp166 : signed(7 downto 0);
  signal temp167 : signed(7 downto 0);
  signal temp168 : signed(7 downto 0);
  signal temp169 : signed(7 downto 0);
  signal temp170 : boolean;
  signal temp171 : boolean;
  signal temp172 : unsigned(2 downto 0);
  signal temp173 : signed(7 downto 0);
  signal temp174 : signed(7 downto 0);
  signal temp175 : signed(7 downto 0);
  signal temp176 : boolean;
  signal temp177 : boolean;
  signal temp178 : unsigned(2 downto 0);
  signal temp179 : signed(7 downto 0);
  signal temp180 : signed(7 downto 0);
  signal temp181 : signed(7 downto 0);
  signal temp182 : boolean;
  signal temp183 : boolean;
  signal temp184 : unsigned(2 downto 0);
  signal a14 : signed(7 downto 0);
  signal temp185 : signed(7 downto 0);
  signal temp186 : signed(7 downto 0);
  signal temp187 : boolean;
  signal temp188 : boolean;
  signal temp189 : unsigned(2 downto 0);
  signal b14 : signed(7 downto 0);
  signal b15 : signed(7 downto 0);
  signal temp190 : signed(7 downto 0);
  signal temp191 : signed(7 downto 0);
  signal temp192 : boolean;
  signal temp193 : boolean;
  signal temp194 : unsigned(2 downto 0);
  signal a15 : signed(7 downto 0);
  signal temp195 : signed(7 downto 0);
  signal temp196 : signed(7 downto 0);
  signal temp197 : boolean;
  signal temp198 : boolean;
  signal temp199 : unsigned(2 downto 0);
  signal temp200 : signed(7 downto 0);
  signal temp201 : signed(7 downto 0);
  signal temp202 : boolean;
  signal temp203 : boolean;
  signal temp204 : unsigned(2 downto 0);
  signal temp205 : unsigned(2 downto 0);
  signal temp206 : signed(7 downto 0);
  signal temp207 : signed(7 downto 0);
  signal temp208 : signed(7 downto 0);
  signal temp209 : boolean;
  signal temp210 : boolean;
  signal temp211 : unsigned(2 downto 0);
  signal temp212 : unsigned(2 downto 0);
  signal temp213 : signed(7 downto 0);
  signal temp214 : signed(7 downto 0);
  signal temp215 : signed(7 downto 0);
  signal temp216 : signed(7 downto 0);
  signal temp217 : boolean;
  signal temp218 : boolean;
  signal temp219 : unsigned(2 downto 0);
  signal temp220 : unsigned(2 downto 0);
  signal temp221 : signed(7 downto 0);
  signal temp222 : signed(7 downto 0);
  signal temp223 : signed(7 downto 0);
  signal temp224 : boolean;
  signal temp225 : boolean;
  signal temp226 : unsigned(2 downto 0);
  signal temp227 : signed(7 downto 0);
  signal temp228 : signed(7 downto 0);
  signal temp229 : boolean;
  signal temp230 : boolean;
  signal temp231 : unsigned(2 downto 0);
  signal temp232 : unsigned(2 downto 0);
  signal temp233 : signed(7 downto 0);
  signal temp234 : signed(7 downto 0);
  signal temp235 : signed(7 downto 0);
  signal temp236 : boolean;
  signal temp237 : boolean;
  signal temp238 : unsigned(2 downto 0);
  signal temp239 : unsigned(2 downto 0);
  signal temp240 : signed(7 downto 0);
  signal temp241 : signed(7 downto 0);
  signal temp242 : signed(7 downto 0);
  signal temp243 : signed(7 downto 0);
  signal temp244 : boolean;
  signal temp245 : boolean;
  signal temp246 : unsigned(2 downto 0);
  signal temp247 : unsigned(2 downto 0);
  signal temp248 : signed(7 downto 0);
  signal temp249 : signed(7 downto 0);
  signal temp250 : signed(7 downto 0);
  signal temp251 : boolean;
  signal temp252 : boolean;
  signal temp253 : unsigned(2 downto 0);
  signal temp254 : signed(7 downto 0);
  signal temp255 : signed(7 downto 0);
  signal temp256 : signed(7 downto 0);
  signal temp257 : boolean;
  signal temp258 : boolean;
  signal temp259 : unsigned(2 downto 0);
  signal temp260 : unsigned(2 downto 0);
  signal a16 : signed(7 downto 0);
  signal temp261 : signed(7 downto 0);
  signal temp262 : signed(7 downto 0);
  signal temp263 : boolean;
  signal temp264 : boolean;
  signal temp265 : unsigned(2 downto 0);
  signal temp266 : unsigned(2 downto 0);
  signal b16 : signed(7 downto 0);
  signal b17 : signed(7 downto 0);
  signal temp267 : signed(7 downto 0);
  signal temp268 : signed(7 downto 0);
  signal temp269 : boolean;
  signal temp270 : boolean;
  signal temp271 : unsigned(2 downto 0);
  signal temp272 : unsigned(2 downto 0);
  signal a17 : signed(7 downto 0);
  signal temp273 : signed(7 downto 0);
  signal temp274 : signed(7 downto 0);
  signal temp275 : boolean;
  signal temp276 : boolean;
  signal temp277 : unsigned(2 downto 0);
  signal temp278 : signed(7 downto 0);
begin
  
  -- CONCURRENT BLOCK (buffer assignment)
  min_1 <= buffer_min_1;
  max_1 <= buffer_max_1;
  min_2 <= buffer_min_2;
  max_2 <= buffer_max_2;
  min_2idx <= buffer_min_2idx;
  max_2idx <= buffer_max_2idx;
  min_2elem <= buffer_min_2elem;
  max_2elem <= buffer_max_2elem;
  min_2elem_idx <= buffer_min_2elem_idx;
  max_2elem_idx <= buffer_max_2elem_idx;
  min_3 <= buffer_min_3;
  max_3 <= buffer_max_3;
  min_3idx <= buffer_min_3idx;
  max_3idx <= buffer_max_3idx;
  min_3elem <= buffer_min_3elem;
  max_3elem <= buffer_max_3elem;
  min_3elem_idx <= buffer_min_3elem_idx;
  max_3elem_idx <= buffer_max_3elem_idx;
  min_4 <= buffer_min_4;
  max_4 <= buffer_max_4;
  min_4n <= buffer_min_4n;
  max_4n <= buffer_max_4n;
  min_4idx <= buffer_min_4idx;
  max_4idx <= buffer_max_4idx;
  min_4elem <= buffer_min_4elem;
  max_4elem <= buffer_max_4elem;
  min_4elem_idx <= buffer_min_4elem_idx;
  max_4elem_idx <= buffer_max_4elem_idx;
  min_5 <= buffer_min_5;
  max_5 <= buffer_max_5;
  min_5n <= buffer_min_5n;
  max_5n <= buffer_max_5n;
  min_5idx <= buffer_min_5idx;
  max_5idx <= buffer_max_5idx;
  min_5elem <= buffer_min_5elem;
  max_5elem <= buffer_max_5elem;
  min_5elem_idx <= buffer_min_5elem_idx;
  max_5elem_idx <= buffer_max_5elem_idx;
  
  -- CONCURRENT BLOCK (logic)
  temp <= (unsigned(std_logic_vector(val_b)) < unsigned(val_a));
  temp1 <= temp;
  with temp1 select temp2 <=
    unsigned(std_logic_vector(val_b)) when true,
    unsigned(val_a) when others;
  buffer_min_1 <= std_logic_vector(temp2);
  temp3 <= (unsigned(std_logic_vector(val_b)) > unsigned(val_a));
  temp4 <= temp3;
  with temp4 select temp5 <=
    unsigned(std_logic_vector(val_b)) when true,
    unsigned(val_a) when others;
  buffer_max_1 <= std_logic_vector(temp5);
  temp6 <= (val_e < val_b);
  temp7 <= temp6;
  with temp7 select temp8 <=
    val_e when true,
    val_b when others;
  buffer_min_2 <= std_logic_vector(temp8);
  temp9 <= (val_f > val_c);
  temp10 <= temp9;
  with temp10 select temp11 <=
    val_f when true,
    val_c when others;
  buffer_max_2 <= std_logic_vector(temp11);
  temp12 <= (val_e < val_b);
  temp13 <= temp12;
  with temp13 select temp14 <=
    unsigned'("01") when true,
    unsigned'("00") when others;
  buffer_min_2idx <= std_logic_vector(temp14);
  temp15 <= (val_f > val_c);
  temp16 <= temp15;
  with temp16 select temp17 <=
    unsigned'("01") when true,
    unsigned'("00") when others;
  buffer_max_2idx <= std_logic_vector(temp17);
  temp18 <= (val_e < val_b);
  temp19 <= temp18;
  with temp19 select temp20 <=
    unsigned'("01") when true,
    unsigned'("00") when others;
  with temp19 select temp21 <=
    val_e when true,
    val_b when others;
  temp22 <= (val_f > val_c);
  temp23 <= temp22;
  with temp23 select temp24 <=
    unsigned'("01") when true,
    unsigned'("00") when others;
  with temp23 select temp25 <=
    val_f when true,
    val_c when others;
  buffer_min_2elem_idx <= std_logic_vector(temp20);
  buffer_min_2elem <= std_logic_vector(temp21);
  buffer_max_2elem_idx <= std_logic_vector(temp24);
  buffer_max_2elem <= std_logic_vector(temp25);
  temp26 <= val_a;
  buffer_min_3 <= temp26;
  temp27 <= val_d;
  buffer_max_3 <= temp27;
  temp28 <= val_a;
  buffer_min_3idx <= "0";
  temp29 <= val_d;
  buffer_max_3idx <= "0";
  temp30 <= val_a;
  temp31 <= val_d;
  buffer_min_3elem_idx <= "0";
  buffer_min_3elem <= temp30;
  buffer_max_3elem_idx <= "0";
  buffer_max_3elem <= temp31;
  temp32 <= (signed(std_logic_vector(val_f)) < val_e);
  temp33 <= temp32;
  with temp33 select temp34 <=
    unsigned'("101") when true,
    unsigned'("100") when others;
  with temp33 select a <=
    signed(std_logic_vector(val_f)) when true,
    val_e when others;
  temp35 <= (signed(val_d) < signed(std_logic_vector(val_c)));
  temp36 <= temp35;
  with temp36 select temp37 <=
    unsigned'("011") when true,
    unsigned'("010") when others;
  with temp36 select b <=
    signed(val_d) when true,
    signed(std_logic_vector(val_c)) when others;
  temp38 <= (val_b < signed(val_a));
  temp39 <= temp38;
  with temp39 select temp40 <=
    unsigned'("001") when true,
    unsigned'("000") when others;
  with temp39 select b1 <=
    val_b when true,
    signed(val_a) when others;
  temp41 <= (a < b);
  temp42 <= temp41;
  with temp42 select temp43 <=
    temp34 when true,
    temp37 when others;
  with temp42 select a1 <=
    a when true,
    b when others;
  temp44 <= (a1 < b1);
  temp45 <= temp44;
  with temp45 select temp46 <=
    temp43 when true,
    temp40 when others;
  with temp45 select temp47 <=
    a1 when true,
    b1 when others;
  temp48 <= (signed(std_logic_vector(val_f)) > val_e);
  temp49 <= temp48;
  with temp49 select temp50 <=
    unsigned'("101") when true,
    unsigned'("100") when others;
  with temp49 select a2 <=
    signed(std_logic_vector(val_f)) when true,
    val_e when others;
  temp51 <= (signed(val_d) > signed(std_logic_vector(val_c)));
  temp52 <= temp51;
  with temp52 select temp53 <=
    unsigned'("011") when true,
    unsigned'("010") when others;
  with temp52 select b2 <=
    signed(val_d) when true,
    signed(std_logic_vector(val_c)) when others;
  temp54 <= (val_b > signed(val_a));
  temp55 <= temp54;
  with temp55 select temp56 <=
    unsigned'("001") when true,
    unsigned'("000") when others;
  with temp55 select b3 <=
    val_b when true,
    signed(val_a) when others;
  temp57 <= (a2 > b2);
  temp58 <= temp57;
  with temp58 select temp59 <=
    temp50 when true,
    temp53 when others;
  with temp58 select a3 <=
    a2 when true,
    b2 when others;
  temp60 <= (a3 > b3);
  temp61 <= temp60;
  with temp61 select temp62 <=
    temp59 when true,
    temp56 when others;
  with temp61 select temp63 <=
    a3 when true,
    b3 when others;
  buffer_min_4n <= temp46;
  buffer_min_4 <= std_logic_vector(temp47);
  buffer_max_4n <= temp62;
  buffer_max_4 <= std_logic_vector(temp63);
  temp64 <= (signed(std_logic_vector(val_f)) < val_e);
  temp65 <= temp64;
  with temp65 select temp66 <=
    unsigned'("101") when true,
    unsigned'("100") when others;
  with temp65 select a4 <=
    signed(std_logic_vector(val_f)) when true,
    val_e when others;
  temp67 <= (signed(val_d) < signed(std_logic_vector(val_c)));
  temp68 <= temp67;
  with temp68 select temp69 <=
    unsigned'("011") when true,
    unsigned'("010") when others;
  with temp68 select b4 <=
    signed(val_d) when true,
    signed(std_logic_vector(val_c)) when others;
  temp70 <= (val_b < signed(val_a));
  temp71 <= temp70;
  with temp71 select temp72 <=
    unsigned'("001") when true,
    unsigned'("000") when others;
  with temp71 select b5 <=
    val_b when true,
    signed(val_a) when others;
  temp73 <= (a4 < b4);
  temp74 <= temp73;
  with temp74 select temp75 <=
    temp66 when true,
    temp69 when others;
  with temp74 select a5 <=
    a4 when true,
    b4 when others;
  temp76 <= (a5 < b5);
  temp77 <= temp76;
  with temp77 select temp78 <=
    temp75 when true,
    temp72 when others;
  buffer_min_4idx <= std_logic_vector(temp78);
  temp79 <= (signed(std_logic_vector(val_f)) > val_e);
  temp80 <= temp79;
  with temp80 select temp81 <=
    unsigned'("101") when true,
    unsigned'("100") when others;
  with temp80 select a6 <=
    signed(std_logic_vector(val_f)) when true,
    val_e when others;
  temp82 <= (signed(val_d) > signed(std_logic_vector(val_c)));
  temp83 <= temp82;
  with temp83 select temp84 <=
    unsigned'("011") when true,
    unsigned'("010") when others;
  with temp83 select b6 <=
    signed(val_d) when true,
    signed(std_logic_vector(val_c)) when others;
  temp85 <= (val_b > signed(val_a));
  temp86 <= temp85;
  with temp86 select temp87 <=
    unsigned'("001") when true,
    unsigned'("000") when others;
  with temp86 select b7 <=
    val_b when true,
    signed(val_a) when others;
  temp88 <= (a6 > b6);
  temp89 <= temp88;
  with temp89 select temp90 <=
    temp81 when true,
    temp84 when others;
  with temp89 select a7 <=
    a6 when true,
    b6 when others;
  temp91 <= (a7 > b7);
  temp92 <= temp91;
  with temp92 select temp93 <=
    temp90 when true,
    temp87 when others;
  buffer_max_4idx <= std_logic_vector(temp93);
  temp94 <= (signed(std_logic_vector(val_f)) < val_e);
  temp95 <= temp94;
  with temp95 select temp96 <=
    unsigned'("101") when true,
    unsigned'("100") when others;
  with temp95 select temp97 <=
    unsigned'("101") when true,
    unsigned'("100") when others;
  with temp95 select a8 <=
    signed(std_logic_vector(val_f)) when true,
    val_e when others;
  temp98 <= (signed(val_d) < signed(std_logic_vector(val_c)));
  temp99 <= temp98;
  with temp99 select temp100 <=
    unsigned'("011") when true,
    unsigned'("010") when others;
  with temp99 select temp101 <=
    unsigned'("011") when true,
    unsigned'("010") when others;
  with temp99 select b8 <=
    signed(val_d) when true,
    signed(std_logic_vector(val_c)) when others;
  temp102 <= (val_b < signed(val_a));
  temp103 <= temp102;
  with temp103 select temp104 <=
    unsigned'("001") when true,
    unsigned'("000") when others;
  with temp103 select temp105 <=
    unsigned'("001") when true,
    unsigned'("000") when others;
  with temp103 select b9 <=
    val_b when true,
    signed(val_a) when others;
  temp106 <= (a8 < b8);
  temp107 <= temp106;
  with temp107 select temp108 <=
    temp96 when true,
    temp100 when others;
  with temp107 select temp109 <=
    temp97 when true,
    temp101 when others;
  with temp107 select a9 <=
    a8 when true,
    b8 when others;
  temp110 <= (a9 < b9);
  temp111 <= temp110;
  with temp111 select temp112 <=
    temp108 when true,
    temp104 when others;
  with temp111 select temp113 <=
    a9 when true,
    b9 when others;
  temp114 <= (signed(std_logic_vector(val_f)) > val_e);
  temp115 <= temp114;
  with temp115 select temp116 <=
    unsigned'("101") when true,
    unsigned'("100") when others;
  with temp115 select temp117 <=
    unsigned'("101") when true,
    unsigned'("100") when others;
  with temp115 select a10 <=
    signed(std_logic_vector(val_f)) when true,
    val_e when others;
  temp118 <= (signed(val_d) > signed(std_logic_vector(val_c)));
  temp119 <= temp118;
  with temp119 select temp120 <=
    unsigned'("011") when true,
    unsigned'("010") when others;
  with temp119 select temp121 <=
    unsigned'("011") when true,
    unsigned'("010") when others;
  with temp119 select b10 <=
    signed(val_d) when true,
    signed(std_logic_vector(val_c)) when others;
  temp122 <= (val_b > signed(val_a));
  temp123 <= temp122;
  with temp123 select temp124 <=
    unsigned'("001") when true,
    unsigned'("000") when others;
  with temp123 select temp125 <=
    unsigned'("001") when true,
    unsigned'("000") when others;
  with temp123 select b11 <=
    val_b when true,
    signed(val_a) when others;
  temp126 <= (a10 > b10);
  temp127 <= temp126;
  with temp127 select temp128 <=
    temp116 when true,
    temp120 when others;
  with temp127 select temp129 <=
    temp117 when true,
    temp121 when others;
  with temp127 select a11 <=
    a10 when true,
    b10 when others;
  temp130 <= (a11 > b11);
  temp131 <= temp130;
  with temp131 select temp132 <=
    temp128 when true,
    temp124 when others;
  with temp131 select temp133 <=
    a11 when true,
    b11 when others;
  buffer_min_4elem_idx <= std_logic_vector(temp112);
  buffer_min_4elem <= std_logic_vector(temp113);
  buffer_max_4elem_idx <= std_logic_vector(temp132);
  buffer_max_4elem <= std_logic_vector(temp133);
  temp134 <= shift_right(val_e, 1);
  temp135 <= shift_right(signed(val_d), 1);
  temp136 <= (temp134 < temp135);
  temp137 <= temp136;
  with temp137 select temp138 <=
    unsigned'("100") when true,
    unsigned'("011") when others;
  with temp137 select a12 <=
    val_e when true,
    signed(val_d) when others;
  temp139 <= shift_right(signed(std_logic_vector(val_c)), 1);
  temp140 <= shift_right(val_b, 1);
  temp141 <= (temp139 < temp140);
  temp142 <= temp141;
  with temp142 select temp143 <=
    unsigned'("010") when true,
    unsigned'("001") when others;
  with temp142 select b12 <=
    signed(std_logic_vector(val_c)) when true,
    val_b when others;
  b13 <= signed(val_a);
  temp144 <= shift_right(a12, 1);
  temp145 <= shift_right(b12, 1);
  temp146 <= (temp144 < temp145);
  temp147 <= temp146;
  with temp147 select temp148 <=
    temp138 when true,
    temp143 when others;
  with temp147 select a13 <=
    a12 when true,
    b12 when others;
  temp149 <= shift_right(a13, 1);
  temp150 <= shift_right(b13, 1);
  temp151 <= (temp149 < temp150);
  temp152 <= temp151;
  with temp152 select temp153 <=
    temp148 when true,
    unsigned'("000") when others;
  with temp152 select temp154 <=
    a13 when true,
    b13 when others;
  temp155 <= shift_right(signed(std_logic_vector(val_f)), 2);
  temp156 <= shift_right(val_e, 2);
  temp157 <= (temp155 > temp156);
  temp158 <= temp157;
  with temp158 select temp159 <=
    unsigned'("101") when true,
    unsigned'("100") when others;
  with temp158 select temp160 <=
    signed(std_logic_vector(val_f)) when true,
    val_e when others;
  temp161 <= shift_right(signed(val_d), 2);
  temp162 <= shift_right(signed(std_logic_vector(val_c)), 2);
  temp163 <= (temp161 > temp162);
  temp164 <= temp163;
  with temp164 select temp165 <=
    unsigned'("011") when true,
    unsigned'("010") when others;
  with temp164 select temp166 <=
    signed(val_d) when true,
    signed(std_logic_vector(val_c)) when others;
  temp167 <= val_b;
  temp168 <= shift_right(temp160, 2);
  temp169 <= shift_right(temp166, 2);
  temp170 <= (temp168 > temp169);
  temp171 <= temp170;
  with temp171 select temp172 <=
    temp159 when true,
    temp165 when others;
  with temp171 select temp173 <=
    temp160 when true,
    temp166 when others;
  temp174 <= shift_right(temp173, 2);
  temp175 <= shift_right(temp167, 2);
  temp176 <= (temp174 > temp175);
  temp177 <= temp176;
  with temp177 select temp178 <=
    temp172 when true,
    unsigned'("001") when others;
  with temp177 select temp179 <=
    temp173 when true,
    temp167 when others;
  buffer_min_5n <= temp153;
  buffer_min_5 <= std_logic_vector(temp154);
  buffer_max_5n <= temp178;
  buffer_max_5 <= std_logic_vector(temp179);
  temp180 <= shift_right(val_e, 1);
  temp181 <= shift_right(signed(val_d), 1);
  temp182 <= (temp180 < temp181);
  temp183 <= temp182;
  with temp183 select temp184 <=
    unsigned'("100") when true,
    unsigned'("011") when others;
  with temp183 select a14 <=
    val_e when true,
    signed(val_d) when others;
  temp185 <= shift_right(signed(std_logic_vector(val_c)), 1);
  temp186 <= shift_right(val_b, 1);
  temp187 <= (temp185 < temp186);
  temp188 <= temp187;
  with temp188 select temp189 <=
    unsigned'("010") when true,
    unsigned'("001") when others;
  with temp188 select b14 <=
    signed(std_logic_vector(val_c)) when true,
    val_b when others;
  b15 <= signed(val_a);
  temp190 <= shift_right(a14, 1);
  temp191 <= shift_right(b14, 1);
  temp192 <= (temp190 < temp191);
  temp193 <= temp192;
  with temp193 select temp194 <=
    temp184 when true,
    temp189 when others;
  with temp193 select a15 <=
    a14 when true,
    b14 when others;
  temp195 <= shift_right(a15, 1);
  temp196 <= shift_right(b15, 1);
  temp197 <= (temp195 < temp196);
  temp198 <= temp197;
  with temp198 select temp199 <=
    temp194 when true,
    unsigned'("000") when others;
  buffer_min_5idx <= std_logic_vector(temp199);
  temp200 <= shift_right(signed(std_logic_vector(val_f)), 2);
  temp201 <= shift_right(val_e, 2);
  temp202 <= (temp200 > temp201);
  temp203 <= temp202;
  with temp203 select temp204 <=
    unsigned'("100") when true,
    unsigned'("011") when others;
  with temp203 select temp205 <=
    unsigned'("101") when true,
    unsigned'("100") when others;
  with temp203 select temp206 <=
    signed(std_logic_vector(val_f)) when true,
    val_e when others;
  temp207 <= shift_right(signed(val_d), 2);
  temp208 <= shift_right(signed(std_logic_vector(val_c)), 2);
  temp209 <= (temp207 > temp208);
  temp210 <= temp209;
  with temp210 select temp211 <=
    unsigned'("010") when true,
    unsigned'("001") when others;
  with temp210 select temp212 <=
    unsigned'("011") when true,
    unsigned'("010") when others;
  with temp210 select temp213 <=
    signed(val_d) when true,
    signed(std_logic_vector(val_c)) when others;
  temp214 <= val_b;
  temp215 <= shift_right(temp206, 2);
  temp216 <= shift_right(temp213, 2);
  temp217 <= (temp215 > temp216);
  temp218 <= temp217;
  with temp218 select temp219 <=
    temp204 when true,
    temp211 when others;
  with temp218 select temp220 <=
    temp205 when true,
    temp212 when others;
  with temp218 select temp221 <=
    temp206 when true,
    temp213 when others;
  temp222 <= shift_right(temp221, 2);
  temp223 <= shift_right(temp214, 2);
  temp224 <= (temp222 > temp223);
  temp225 <= temp224;
  with temp225 select temp226 <=
    temp219 when true,
    unsigned'("000") when others;
  buffer_max_5idx <= std_logic_vector(temp226);
  temp227 <= shift_right(val_e, 1);
  temp228 <= shift_right(signed(val_d), 1);
  temp229 <= (temp227 < temp228);
  temp230 <= temp229;
  with temp230 select temp231 <=
    unsigned'("100") when true,
    unsigned'("011") when others;
  with temp230 select temp232 <=
    unsigned'("100") when true,
    unsigned'("011") when others;
  with temp230 select temp233 <=
    val_e when true,
    signed(val_d) when others;
  temp234 <= shift_right(signed(std_logic_vector(val_c)), 1);
  temp235 <= shift_right(val_b, 1);
  temp236 <= (temp234 < temp235);
  temp237 <= temp236;
  with temp237 select temp238 <=
    unsigned'("010") when true,
    unsigned'("001") when others;
  with temp237 select temp239 <=
    unsigned'("010") when true,
    unsigned'("001") when others;
  with temp237 select temp240 <=
    signed(std_logic_vector(val_c)) when true,
    val_b when others;
  temp241 <= signed(val_a);
  temp242 <= shift_right(temp233, 1);
  temp243 <= shift_right(temp240, 1);
  temp244 <= (temp242 < temp243);
  temp245 <= temp244;
  with temp245 select temp246 <=
    temp231 when true,
    temp238 when others;
  with temp245 select temp247 <=
    temp232 when true,
    temp239 when others;
  with temp245 select temp248 <=
    temp233 when true,
    temp240 when others;
  temp249 <= shift_right(temp248, 1);
  temp250 <= shift_right(temp241, 1);
  temp251 <= (temp249 < temp250);
  temp252 <= temp251;
  with temp252 select temp253 <=
    temp246 when true,
    unsigned'("000") when others;
  with temp252 select temp254 <=
    temp248 when true,
    temp241 when others;
  temp255 <= shift_right(signed(std_logic_vector(val_f)), 2);
  temp256 <= shift_right(val_e, 2);
  temp257 <= (temp255 > temp256);
  temp258 <= temp257;
  with temp258 select temp259 <=
    unsigned'("100") when true,
    unsigned'("011") when others;
  with temp258 select temp260 <=
    unsigned'("101") when true,
    unsigned'("100") when others;
  with temp258 select a16 <=
    signed(std_logic_vector(val_f)) when true,
    val_e when others;
  temp261 <= shift_right(signed(val_d), 2);
  temp262 <= shift_right(signed(std_logic_vector(val_c)), 2);
  temp263 <= (temp261 > temp262);
  temp264 <= temp263;
  with temp264 select temp265 <=
    unsigned'("010") when true,
    unsigned'("001") when others;
  with temp264 select temp266 <=
    unsigned'("011") when true,
    unsigned'("010") when others;
  with temp264 select b16 <=
    signed(val_d) when true,
    signed(std_logic_vector(val_c)) when others;
  b17 <= val_b;
  temp267 <= shift_right(a16, 2);
  temp268 <= shift_right(b16, 2);
  temp269 <= (temp267 > temp268);
  temp270 <= temp269;
  with temp270 select temp271 <=
    temp259 when true,
    temp265 when others;
  with temp270 select temp272 <=
    temp260 when true,
    temp266 when others;
  with temp270 select a17 <=
    a16 when true,
    b16 when others;
  temp273 <= shift_right(a17, 2);
  temp274 <= shift_right(b17, 2);
  temp275 <= (temp273 > temp274);
  temp276 <= temp275;
  with temp276 select temp277 <=
    temp271 when true,
    unsigned'("000") when others;
  with temp276 select temp278 <=
    a17 when true,
    b17 when others;
  buffer_min_5elem_idx <= std_logic_vector(temp253);
  buffer_min_5elem <= std_logic_vector(temp254);
  buffer_max_5elem_idx <= std_logic_vector(temp277);
  buffer_max_5elem <= std_logic_vector(temp278);
end architecture arch_test_min_max;