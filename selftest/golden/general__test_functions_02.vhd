library ieee;
use ieee.std_logic_1164.all;
use ieee.numeric_std.all;


entity test_function_simple is
  port (
    clk : in std_logic;
    a : in std_logic_vector(3 downto 0);
    b : in std_logic_vector(3 downto 0);
    cond : in std_logic;
    out_ident : out std_logic_vector(3 downto 0);
    out_nested : out std_logic_vector(3 downto 0);
    out_nested_b : out std_logic_vector(3 downto 0);
    out_option : out std_logic_vector(3 downto 0);
    out_option_b : out std_logic_vector(3 downto 0);
    out_option_nested : out std_logic_vector(3 downto 0);
    out_early_return : out std_logic_vector(3 downto 0);
    out_early_return_2 : out std_logic_vector(3 downto 0)
    );
end test_function_simple;


architecture arch_test_function_simple of test_function_simple is
  function cohdl_bool_to_std_logic(inp: boolean) return std_logic is
  begin
    if inp then
      return('1');
    else
      return('0');
    end if;
  end function cohdl_bool_to_std_logic;
  signal buffer_out_ident : std_logic_vector(3 downto 0);
  signal buffer_out_nested : std_logic_vector(3 downto 0);
  signal buffer_out_nested_b : std_logic_vector(3 downto 0);
  signal buffer_out_option : std_logic_vector(3 downto 0);
  signal buffer_out_option_b : std_logic_vector(3 downto 0);
  signal buffer_out_option_nested : std_logic_vector(3 downto 0);
  signal buffer_out_early_return : std_logic_vector(3 downto 0);
  signal buffer_out_early_return_2 : std_logic_vector(3 downto 0);
begin
  
  -- CONCURRENT BLOCK (buffer assignment)
  out_ident <= buffer_out_ident;
  out_nested <= buffer_out_nested;
  out_nested_b <= buffer_out_nested_b;
  out_option <= buffer_out_option;
  out_option_b <= buffer_out_option_b;
  out_option_nested <= buffer_out_option_nested;
  out_early_return <= buffer_out_early_return;
  out_early_return_2 <= buffer_out_early_return_2;
  

  proc_simple: process(clk)
    variable temp : boolean;
    variable temp1 : std_logic_vector(3 downto 0);
    variable temp2 : boolean;
    variable temp3 : std_logic_vector(3 downto 0);
    variable temp4 : boolean;
    variable temp5 : std_logic_vector(3 downto 0);
    variable temp6 : boolean;
    variable temp7 : std_logic_vector(3 downto 0);
    variable temp8 : boolean;
    variable temp9 : std_logic_vector(3 downto 0);
    variable temp10 : boolean;
    variable temp11 : boolean;
    variable temp12 : boolean;
    variable temp13 : std_logic_vector(3 downto 0);
  begin
    if rising_edge(clk) then
      buffer_out_ident <= a;
      buffer_out_nested <= a;
      buffer_out_nested_b <= a;
      temp := cond = '1';
      if temp then
        temp1 := a;
        buffer_out_option <= temp1;
        temp2 := cond = '1';
        if temp2 then
          temp3 := a;
          buffer_out_option_b <= temp3;
          temp4 := cond = '1';
          if temp4 then
            temp5 := a;
            buffer_out_option_nested <= temp5;
            temp6 := cond = '1';
            if temp6 then
              temp7 := a;
              buffer_out_early_return <= temp7;
              temp8 := cond = '1';
              if temp8 then
                temp9 := a;
                buffer_out_early_return_2 <= temp9;
              else
                temp10 := (a /= "0000");
                if temp10 then
                  temp9 := a;
                  buffer_out_early_return_2 <= temp9;
                else
                  temp11 := (b /= "0000");
                  if temp11 then
                    temp9 := b;
                    buffer_out_early_return_2 <= temp9;
                  else
                    temp9 := "1111";
                    buffer_out_early_return_2 <= temp9;
                  end if;
                end if;
              end if;
            else
              temp12 := (a /= "0000");
              if temp12 then
                temp7 := a;
                buffer_out_early_return <= temp7;
                temp8 := cond = '1';
                if temp8 then
                  temp9 := a;
                  buffer_out_early_return_2 <= temp9;
                else
                  temp10 := (a /= "0000");
                  if temp10 then
                    temp9 := a;
                    buffer_out_early_return_2 <= temp9;
                  else
                    temp11 := (b /= "0000");
                    if temp11 then
                      temp9 := b;
                      buffer_out_early_return_2 <= temp9;
                    else
                      temp9 := "1111";
                      buffer_out_early_return_2 <= temp9;
                    end if;
                  end if;
                end if;
              else
                temp13 := (a) or (b);
                temp7 := temp13;
                buffer_out_early_return <= temp7;
                temp8 := cond = '1';
                if temp8 then
                  temp9 := a;
                  buffer_out_early_return_2 <= temp9;
                else
                  temp10 := (a /= "0000");
                  if temp10 then
                    temp9 := a;
                    buffer_out_early_return_2 <= temp9;
                  else
                    temp11 := (b /= "0000");
                    if temp11 then
                      temp9 := b;
                      buffer_out_early_return_2 <= temp9;
                    else
                      temp9 := "1111";
                      buffer_out_early_return_2 <= temp9;
                    end if;
                  end if;
                end if;
              end if;
            end if;
          else
            temp5 := b;
            buffer_out_option_nested <= temp5;
            temp6 := cond = '1';
            if temp6 then
              temp7 := a;
              buffer_out_early_return <= temp7;
              temp8 := cond = '1';
              if temp8 then
                temp9 := a;
                buffer_out_early_return_2 <= temp9;
              else
                temp10 := (a /= "0000");
                if temp10 then
                  temp9 := a;
                  buffer_out_early_return_2 <= temp9;
                else
                  temp11 := (b /= "0000");
                  if temp11 then
                    temp9 := b;
                    buffer_out_early_return_2 <= temp9;
                  else
                    temp9 := "1111";
                    buffer_out_early_return_2 <= temp9;
                  end if;
                end if;
              end if;
            else
              temp12 := (a /= "0000");
              if temp12 then
                temp7 := a;
                buffer_out_early_return <= temp7;
                temp8 := cond = '1';
                if temp8 then
                  temp9 := a;
                  buffer_out_early_return_2 <= temp9;
                else
                  temp10 := (a /= "0000");
                  if temp10 then
                    temp9 := a;
                    buffer_out_early_return_2 <= temp9;
                  else
                    temp11 := (b /= "0000");
                    if temp11 then
                      temp9 := b;
                      buffer_out_early_return_2 <= temp9;
                    else
                      temp9 := "1111";
                      buffer_out_early_return_2 <= temp9;
                    end if;
                  end if;
                end if;
              else
                temp13 := (a) or (b);
                temp7 := temp13;
                buffer_out_early_return <= temp7;
                temp8 := cond = '1';
                if temp8 then
                  temp9 := a;
                  buffer_out_early_return_2 <= temp9;
                else
                  temp10 := (a /= "0000");
                  if temp10 then
                    temp9 := a;
                    buffer_out_early_return_2 <= temp9;
                  else
                    temp11 := (b /= "0000");
                    if temp11 then
                      temp9 := b;
                      buffer_out_early_return_2 <= temp9;
                    else
                      temp9 := "1111";
                      buffer_out_early_return_2 <= temp9;
                    end if;
                  end if;
                end if;
              end if;
            end if;
          end if;
        else
          temp3 := b;
          buffer_out_option_b <= temp3;
          temp4 := cond = '1';
          if temp4 then
            temp5 := a;
            buffer_out_option_nested <= temp5;
            temp6 := cond = '1';
            if temp6 then
              temp7 := a;
              buffer_out_early_return <= temp7;
              temp8 := cond = '1';
              if temp8 then
                temp9 := a;
                buffer_out_early_return_2 <= temp9;
              else
                temp10 := (a /= "0000");
                if temp10 then
                  temp9 := a;
                  buffer_out_early_return_2 <= temp9;
                else
                  temp11 := (b /= "0000");
                  if temp11 then
                    temp9 := b;
                    buffer_out_early_return_2 <= temp9;
                  else
                    temp9 := "1111";
                    buffer_out_early_return_2 <= temp9;
                  end if;
                end if;
              end if;
            else
              temp12 := (a /= "0000");
              if temp12 then
                temp7 := a;
                buffer_out_early_return <= temp7;
                temp8 := cond = '1';
                if temp8 then
                  temp9 := a;
                  buffer_out_early_return_2 <= temp9;
                else
                  temp10 := (a /= "0000");
                  if temp10 then
                    temp9 := a;
                    buffer_out_early_return_2 <= temp9;
                  else
                    temp11 := (b /= "0000");
                    if temp11 then
                      temp9 := b;
                      buffer_out_early_return_2 <= temp9;
                    else
                      temp9 := "1111";
                      buffer_out_early_return_2 <= temp9;
                    end if;
                  end if;
                end if;
              else
                temp13 := (a) or (b);
                temp7 := temp13;
                buffer_out_early_return <= temp7;
                temp8 := cond = '1';
                if temp8 then
                  temp9 := a;
                  buffer_out_early_return_2 <= temp9;
                else
                  temp10 := (a /= "0000");
                  if temp10 then
                    temp9 := a;
                    buffer_out_early_return_2 <= temp9;
                  else
                    temp11 := (b /= "0000");
                    if temp11 then
                      temp9 := b;
                      buffer_out_early_return_2 <= temp9;
                    else
                      temp9 := "1111";
                      buffer_out_early_return_2 <= temp9;
                    end if;
                  end if;
                end if;
              end if;
            end if;
          else
            temp5 := b;
            buffer_out_option_nested <= temp5;
            temp6 := cond = '1';
            if temp6 then
              temp7 := a;
              buffer_out_early_return <= temp7;
              temp8 := cond = '1';
              if temp8 then
                temp9 := a;
                buffer_out_early_return_2 <= temp9;
              else
                temp10 := (a /= "0000");
                if temp10 then
                  temp9 := a;
                  buffer_out_early_return_2 <= temp9;
                else
                  temp11 := (b /= "0000");
                  if temp11 then
                    temp9 := b;
                    buffer_out_early_return_2 <= temp9;
                  else
                    temp9 := "1111";
                    buffer_out_early_return_2 <= temp9;
                  end if;
                end if;
              end if;
            else
              temp12 := (a /= "0000");
              if temp12 then
                temp7 := a;
                buffer_out_early_return <= temp7;
                temp8 := cond = '1';
                if temp8 then
                  temp9 := a;
                  buffer_out_early_return_2 <= temp9;
                else
                  temp10 := (a /= "0000");
                  if temp10 then
                    temp9 := a;
                    buffer_out_early_return_2 <= temp9;
                  else
                    temp11 := (b /= "0000");
                    if temp11 then
                      temp9 := b;
                      buffer_out_early_return_2 <= temp9;
                    else
                      temp9 := "1111";
                      buffer_out_early_return_2 <= temp9;
                    end if;
                  end if;
                end if;
              else
                temp13 := (a) or (b);
                temp7 := temp13;
                buffer_out_early_return <= temp7;
                temp8 := cond = '1';
                if temp8 then
                  temp9 := a;
                  buffer_out_early_return_2 <= temp9;
                else
                  temp10 := (a /= "0000");
                  if temp10 then
                    temp9 := a;
                    buffer_out_early_return_2 <= temp9;
                  else
                    temp11 := (b /= "0000");
                    if temp11 then
                      temp9 := b;
                      buffer_out_early_return_2 <= temp9;
                    else
                      temp9 := "1111";
                      buffer_out_early_return_2 <= temp9;
                    end if;
                  end if;
                end if;
              end if;
            end if;
          end if;
        end if;
      else
        temp1 := b;
        buffer_out_option <= temp1;
        temp2 := cond = '1';
        if temp2 then
          temp3 := a;
          buffer_out_option_b <= temp3;
          temp4 := cond = '1';
          if temp4 then
            temp5 := a;
            buffer_out_option_nested <= temp5;
            temp6 := cond = '1';
            if temp6 then
              temp7 := a;
              buffer_out_early_return <= temp7;
              temp8 := cond = '1';
              if temp8 then
                temp9 := a;
                buffer_out_early_return_2 <= temp9;
              else
                temp10 := (a /= "0000");
                if temp10 then
                  temp9 := a;
                  buffer_out_early_return_2 <= temp9;
                else
                  temp11 := (b /= "0000");
                  if temp11 then
                    temp9 := b;
                    buffer_out_early_return_2 <= temp9;
                  else
                    temp9 := "1111";
                    buffer_out_early_return_2 <= temp9;
                  end if;
                end if;
              end if;
            else
              temp12 := (a /= "0000");
              if temp12 then
                temp7 := a;
                buffer_out_early_return <= temp7;
                temp8 := cond = '1';
                if temp8 then
                  temp9 := a;
                  buffer_out_early_return_2 <= temp9;
                else
                  temp10 := (a /= "0000");
                  if temp10 then
                    temp9 := a;
                    buffer_out_early_return_2 <= temp9;
                  else
                    temp11 := (b /= "0000");
                    if temp11 then
                      temp9 := b;
                      buffer_out_early_return_2 <= temp9;
                    else
                      temp9 := "1111";
                      buffer_out_early_return_2 <= temp9;
                    end if;
                  end if;
                end if;
              else
                temp13 := (a) or (b);
                temp7 := temp13;
                buffer_out_early_return <= temp7;
                temp8 := cond = '1';
                if temp8 then
                  temp9 := a;
                  buffer_out_early_return_2 <= temp9;
                else
                  temp10 := (a /= "0000");
                  if temp10 then
                    temp9 := a;
                    buffer_out_early_return_2 <= temp9;
                  else
                    temp11 := (b /= "0000");
                    if temp11 then
                      temp9 := b;
                      buffer_out_early_return_2 <= temp9;
                    else
                      temp9 := "1111";
                      buffer_out_early_return_2 <= temp9;
                    end if;
                  end if;
                end if;
              end if;
            end if;
          else
            temp5 := b;
            buffer_out_option_nested <= temp5;
            temp6 := cond = '1';
            if temp6 then
              temp7 := a;
              buffer_out_early_return <= temp7;
              temp8 := cond = '1';
              if temp8 then
                temp9 := a;
                buffer_out_early_return_2 <= temp9;
              else
                temp10 := (a /= "0000");
                if temp10 then
                  temp9 := a;
                  buffer_out_early_return_2 <= temp9;
                else
                  temp11 := (b /= "0000");
                  if temp11 then
                    temp9 := b;
                    buffer_out_early_return_2 <= temp9;
                  else
                    temp9 := "1111";
                    buffer_out_early_return_2 <= temp9;
                  end if;
                end if;
              end if;
            else
              temp12 := (a /= "0000");
              if temp12 then
                temp7 := a;
                buffer_out_early_return <= temp7;
                temp8 := cond = '1';
                if temp8 then
                  temp9 := a;
                  buffer_out_early_return_2 <= temp9;
                else
                  temp10 := (a /= "0000");
                  if temp10 then
                    temp9 := a;
                    buffer_out_early_return_2 <= temp9;
                  else
                    temp11 := (b /= "0000");
                    if temp11 then
                      temp9 := b;
                      buffer_out_early_return_2 <= temp9;
                    else
                      temp9 := "1111";
                      buffer_out_early_return_2 <= temp9;
                    end if;
                  end if;
                end if;
              else
                temp13 := (a) or (b);
                temp7 := temp13;
                buffer_out_early_return <= temp7;
                temp8 := cond = '1';
                if temp8 then
                  temp9 := a;
                  buffer_out_early_return_2 <= temp9;
                else
                  temp10 := (a /= "0000");
                  if temp10 then
                    temp9 := a;
                    buffer_out_early_return_2 <= temp9;
                  else
                    temp11 := (b /= "0000");
                    if temp11 then
                      temp9 := b;
                      buffer_out_early_return_2 <= temp9;
                    else
                      temp9 := "1111";
                      buffer_out_early_return_2 <= temp9;
                    end if;
                  end if;
                end if;
              end if;
            end if;
          end if;
        else
          temp3 := b;
          buffer_out_option_b <= temp3;
          temp4 := cond = '1';
          if temp4 then
            temp5 := a;
            buffer_out_option_nested <= temp5;
            temp6 := cond = '1';
            if temp6 then
              temp7 := a;
              buffer_out_early_return <= temp7;
              temp8 := cond = '1';
              if temp8 then
                temp9 := a;
                buffer_out_early_return_2 <= temp9;
              else
                temp10 := (a /= "0000");
                if temp10 then
                  temp9 := a;
                  buffer_out_early_return_2 <= temp9;
                else
                  temp11 := (b /= "0000");
                  if temp11 then
                    temp9 := b;
                    buffer_out_early_return_2 <= temp9;
                  else
                    temp9 := "1111";
                    buffer_out_early_return_2 <= temp9;
                  end if;
                end if;
              end if;
            else
              temp12 := (a /= "0000");
              if temp12 then
                temp7 := a;
                buffer_out_early_return <= temp7;
                temp8 := cond = '1';
                if temp8 then
                  temp9 := a;
                  buffer_out_early_return_2 <= temp9;
                else
                  temp10 := (a /= "0000");
                  if temp10 then
                    temp9 := a;
                    buffer_out_early_return_2 <= temp9;
                  else
                    temp11 := (b /= "0000");
                    if temp11 then
                      temp9 := b;
                      buffer_out_early_return_2 <= temp9;
                    else
                      temp9 := "1111";
                      buffer_out_early_return_2 <= temp9;
                    end if;
                  end if;
                end if;
              else
                temp13 := (a) or (b);
                temp7 := temp13;
                buffer_out_early_return <= temp7;
                temp8 := cond = '1';
                if temp8 then
                  temp9 := a;
                  buffer_out_early_return_2 <= temp9;
                else
                  temp10 := (a /= "0000");
                  if temp10 then
                    temp9 := a;
                    buffer_out_early_return_2 <= temp9;
                  else
                    temp11 := (b /= "0000");
                    if temp11 then
                      temp9 := b;
                      buffer_out_early_return_2 <= temp9;
                    else
                      temp9 := "1111";
                      buffer_out_early_return_2 <= temp9;
                    end if;
                  end if;
                end if;
              end if;
            end if;
          else
            temp5 := b;
            buffer_out_option_nested <= temp5;
            temp6 := cond = '1';
            if temp6 then
              temp7 := a;
              buffer_out_early_return <= temp7;
              temp8 := cond = '1';
              if temp8 then
                temp9 := a;
                buffer_out_early_return_2 <= temp9;
              else
                temp10 := (a /= "0000");
                if temp10 then
                  temp9 := a;
                  buffer_out_early_return_2 <= temp9;
                else
                  temp11 := (b /= "0000");
                  if temp11 then
                    temp9 := b;
                    buffer_out_early_return_2 <= temp9;
                  else
                    temp9 := "1111";
                    buffer_out_early_return_2 <= temp9;
                  end if;
                end if;
              end if;
            else
              temp12 := (a /= "0000");
              if temp12 then
                temp7 := a;
                buffer_out_early_return <= temp7;
                temp8 := cond = '1';
                if temp8 then
                  temp9 := a;
                  buffer_out_early_return_2 <= temp9;
                else
                  temp10 := (a /= "0000");
                  if temp10 then
                    temp9 := a;
                    buffer_out_early_return_2 <= temp9;
                  else
                    temp11 := (b /= "0000");
                    if temp11 then
                      temp9 := b;
                      buffer_out_early_return_2 <= temp9;
                    else
                      temp9 := "1111";
                      buffer_out_early_return_2 <= temp9;
                    end if;
                  end if;
                end if;
              else
                temp13 := (a) or (b);
                temp7 := temp13;
                buffer_out_early_return <= temp7;
                temp8 := cond = '1';
                if temp8 then
                  temp9 := a;
                  buffer_out_early_return_2 <= temp9;
                else
                  temp10 := (a /= "0000");
                  if temp10 then
                    temp9 := a;
                    buffer_out_early_return_2 <= temp9;
                  else
                    temp11 := (b /= "0000");
                    if temp11 then
                      temp9 := b;
                      buffer_out_early_return_2 <= temp9;
                    else
                      temp9 := "1111";
                      buffer_out_early_return_2 <= temp9;
                    end if;
                  end if;
                end if;
              end if;
            end if;
          end if;
        end if;
      end if;
    end if;
  end process;
end architecture arch_test_function_simple;