#!/venv/bin/python
"""Run the upstream cocotb benches (written against ghdl) on cv.vhdl.Sim using the frozen
golden VHDL.  Writes selftest/calibration.json.  usage: calibrate.py [--only substr] [--jobs N]"""
import contextlib, importlib, io, json, multiprocessing as mp, os, sys, time, traceback, unittest
HERE = os.path.dirname(os.path.abspath(__file__))


def run_module(key):
    sys.path.insert(0, HERE); sys.path.insert(0, "/verif"); sys.path.insert(0, "/repo/tests"); sys.path.insert(0, "/repo")
    import cocotb_shim
    cocotb_shim.install()
    index = json.load(open(os.path.join(HERE, "golden", "index.json")))
    info = index[key]
    out = {"key": key, "tests": []}
    buf = io.StringIO()
    try:
        with contextlib.redirect_stdout(buf):
            from cohdl_testutil import cocotb_util
            captured = []
            cocotb_util.run_cocotb_tests = lambda entity, file, module, **kw: captured.append((entity, module, kw))
            m = importlib.import_module(info["module"])
            for name in dir(m):
                obj = getattr(m, name)
                if isinstance(obj, type) and issubclass(obj, unittest.TestCase):
                    inst = obj()
                    for tn in dir(obj):
                        if tn.startswith("test"):
                            getattr(inst, tn)()
        tests = [(n, f) for n, f in vars(m).items() if callable(f) and getattr(f, "_cocotb_test", False)]
        from cv.vhdl.analyze import analyse
        for k, ent in enumerate(info["entities"]):
            text = open(os.path.join(HERE, "golden", ent["file"])).read()
            design = analyse(text)
            if design.unsupported or design.errors:
                out["tests"].append({"entity": ent["top"], "test": "*", "result": "blocked",
                                     "detail": design.unsupported or repr(design.errors[:2])})
                continue
            if len(info["entities"]) > 1 and "extra_env" in ent.get("kw", {}):
                pass
            env = captured[k][2].get("extra_env") if k < len(captured) else None
            if env:
                # parametrised benches read their parameters from the environment at import time
                old_env = dict(os.environ)
                os.environ.update({a: str(b) for a, b in env.items()})
                with contextlib.redirect_stdout(buf):
                    m = importlib.reload(m)
                os.environ.clear(); os.environ.update(old_env)
                tests = [(n, f) for n, f in vars(m).items() if callable(f) and getattr(f, "_cocotb_test", False)]
            for tn, tf in tests:
                t0 = time.time()
                try:
                    with contextlib.redirect_stdout(buf):
                        # extra_env (e.g. generics for parametrised benches) is exported like cocotb-test does
                        env = captured[k][2].get("extra_env") if k < len(captured) else None
                        old = dict(os.environ)
                        if env:
                            os.environ.update({a: str(b) for a, b in env.items()})
                        try:
                            cocotb_shim.run_test(design, ent["top"], tf, seed=1)
                        finally:
                            os.environ.clear(); os.environ.update(old)
                    res, detail = "pass", ""
                except NotImplementedError as e:
                    res, detail = "shim_unsupported", str(e)
                except AssertionError as e:
                    res, detail = "fail", ("AssertionError: " + str(e))[:300] + " @ " + traceback.format_exc().splitlines()[-3][:200]
                except BaseException as e:
                    res, detail = "error", f"{type(e).__name__}: {e}"[:300] + " @ " + " | ".join(l.strip() for l in traceback.format_exc().splitlines()[-6:-1])[:400]
                out["tests"].append({"entity": ent["top"], "test": tn, "result": res, "detail": detail, "s": round(time.time() - t0, 2)})
    except BaseException as e:
        out["error"] = f"{type(e).__name__}: {e}"[:300] + " @ " + " | ".join(l.strip() for l in traceback.format_exc().splitlines()[-6:-1])[:500]
    return out


def main():
    import argparse
    ap = argparse.ArgumentParser(); ap.add_argument("--only"); ap.add_argument("--jobs", type=int, default=16); ap.add_argument("--quick", action="store_true")
    a = ap.parse_args()
    index = json.load(open(os.path.join(HERE, "golden", "index.json")))
    keys = [k for k, v in sorted(index.items()) if v.get("entities") and (not a.only or a.only in k)]
    res = []
    with mp.get_context("spawn").Pool(a.jobs, maxtasksperchild=1) as pool:
        for r in pool.imap_unordered(run_module, keys):
            res.append(r)
    res.sort(key=lambda r: r["key"])
    from collections import Counter
    c = Counter()
    for r in res:
        if "error" in r:
            c["module_error"] += 1
            print(r["key"], "MODULE ERROR", r["error"])
        for t in r["tests"]:
            c[t["result"]] += 1
            if t["result"] != "pass":
                print(r["key"], t["entity"], t["test"], t["result"], t["detail"])
    print(dict(c))
    if not a.only:
        json.dump({"summary": dict(c), "modules": res}, open(os.path.join(HERE, "calibration.json"), "w"), indent=1)


if __name__ == "__main__":
    main()
