#!/venv/bin/python
"""Self-tests of the trusted base (cv.vhdl).  Exit 0 iff all pass.

1. numeric_std / std_logic_1164 model: exhaustive comparison for operand widths 1..4 (mixed)
   against the mathematical definition written a second time, naively, on Python ints.
2. static rules: hand-written legal VHDL must analyse clean, illegal VHDL must raise exactly
   the expected rule.
3. frozen upstream corpus: every golden file analyses without static error (except the one
   triaged multi-driver design) and elaborates.  (--quick: a sample)
The cocotb-bench calibration (selftest/calibrate.py) is separate because it takes minutes.
"""
from __future__ import annotations

import glob
import itertools
import os
import sys

HERE = os.path.dirname(os.path.abspath(__file__))
sys.path.insert(0, os.path.dirname(HERE))

from cv.vhdl import values as V  # noqa: E402
from cv.vhdl.analyze import analyse  # noqa: E402
from cv.vhdl.sim import Blocked, Sim  # noqa: E402

FAIL = []


def check(cond, msg):
    if not cond:
        FAIL.append(msg)
        if len(FAIL) < 30:
            print("SELFTEST FAIL:", msg)


# ------------------------------------------------------------------ 1. numeric_std
def enc(v, n):
    return V.int_to_vec(v, n)


def wrap(v, n, signed):
    v &= (1 << n) - 1
    if signed and v >> (n - 1):
        v -= 1 << n
    return v


def rng(n, signed):
    return range(-(1 << (n - 1)), 1 << (n - 1)) if signed else range(1 << n)


def tdiv(a, b):
    q = abs(a) // abs(b)
    return -q if (a < 0) != (b < 0) else q


def test_numeric(maxw):
    cnt = 0
    for signed in (False, True):
        dec = V.s_to_int if signed else V.u_to_int
        for wa, wb in itertools.product(range(1, maxw + 1), repeat=2):
            for a, b in itertools.product(rng(wa, signed), rng(wb, signed)):
                A, B = enc(a, wa), enc(b, wb)
                m = max(wa, wb)
                cnt += 1
                check(dec(V.add(A, B, signed)) == wrap(a + b, m, signed), f"add {signed} {wa} {wb} {a} {b}")
                check(dec(V.sub(A, B, signed)) == wrap(a - b, m, signed), f"sub {signed} {wa} {wb} {a} {b}")
                r = V.mul(A, B, signed)
                check(len(r) == wa + wb and dec(r) == wrap(a * b, wa + wb, signed), f"mul {signed} {wa} {wb} {a} {b}")
                if b != 0:
                    r = V.div(A, B, signed)
                    check(len(r) == wa and dec(r) == wrap(tdiv(a, b), wa, signed), f"div {signed} {wa} {wb} {a} {b}")
                    r = V.rem(A, B, signed)
                    check(len(r) == wb and dec(r) == wrap(a - b * tdiv(a, b), wb, signed), f"rem {signed} {a} {b}")
                    r = V.mod(A, B, signed)
                    fm = a - b * (a // b)  # floor modulo: sign of the divisor
                    check(len(r) == wb and dec(r) == wrap(fm, wb, signed), f"mod {signed} {a} {b}")
                for op, f in (("=", lambda x, y: x == y), ("/=", lambda x, y: x != y), ("<", lambda x, y: x < y),
                              ("<=", lambda x, y: x <= y), (">", lambda x, y: x > y), (">=", lambda x, y: x >= y)):
                    check(V.compare(A, B, signed, op) == f(a, b), f"cmp {op} {signed} {a} {b}")
            # integer operands, both orders
            for a in rng(wa, signed):
                A = enc(a, wa)
                ints = list(range(-9, 10)) if signed else list(range(0, 19))
                for i in ints:
                    for op in ("+", "-"):
                        for il in (False, True):
                            x, y = (i, a) if il else (a, i)
                            exp = wrap(x + y if op == "+" else x - y, wa, signed)
                            check(dec(V.addsub_int(A, i, signed, op, il)) == exp, f"{op} int {signed} {wa} {a} {i} {il}")
                    for il in (False, True):
                        r = V.mul_int(A, i, signed, il)
                        # the integer is first converted to the vector's width (truncating), numeric_std A.17/A.18
                        iw = wrap(i, wa, signed)
                        check(len(r) == 2 * wa and dec(r) == wrap(a * iw, 2 * wa, signed), f"* int {signed} {wa} {a} {i}")
                        for op, f in (("=", lambda x, y: x == y), ("<", lambda x, y: x < y), (">=", lambda x, y: x >= y)):
                            x, y = (i, a) if il else (a, i)
                            check(V.compare_int(A, i, signed, op, il) == f(x, y), f"cmp int {op} {signed} {a} {i} {il}")
                    if i != 0:
                        fits = (-(1 << (wa - 1)) <= i < (1 << (wa - 1))) if signed else i < (1 << wa)
                        if fits:  # the statement of the package for representable operands
                            check(dec(V.divlike_int(A, i, signed, "/", False)) == wrap(tdiv(a, i), wa, signed), f"/ int {signed} {wa} {a} {i}")
                            check(dec(V.divlike_int(A, i, signed, "rem", False)) == wrap(a - i * tdiv(a, i), wa, signed), f"rem int {a} {i}")
                            check(dec(V.divlike_int(A, i, signed, "mod", False)) == wrap(a - i * (a // i), wa, signed), f"mod int {a} {i}")
                    if a != 0:
                        qq = tdiv(i, a)
                        if qq in rng(wa, signed):  # otherwise numeric_std truncates with a warning (RESIZE semantics)
                            check(dec(V.divlike_int(A, i, signed, "/", True)) == qq, f"int / {signed} {wa} {i} {a}")
                        check(dec(V.divlike_int(A, i, signed, "rem", True)) == wrap(i - a * tdiv(i, a), wa, signed), f"int rem {i} {a}")
                        check(dec(V.divlike_int(A, i, signed, "mod", True)) == wrap(i - a * (i // a), wa, signed), f"int mod {i} {a}")
        for w in range(1, maxw + 1):
            for a in rng(w, signed):
                A = enc(a, w)
                for c in range(0, w + 2):
                    check(dec(V.shift_left(A, c, signed)) == wrap(a << c, w, signed), f"shl {signed} {w} {a} {c}")
                    check(dec(V.shift_right(A, c, signed)) == (a >> c), f"shr {signed} {w} {a} {c}")
                for n in range(1, maxw + 3):
                    r = (V.resize_s if signed else V.resize_u)(A, n)
                    if n >= w:
                        check(len(r) == n and dec(r) == a, f"resize up {signed} {w}->{n} {a}")
                    elif not signed:
                        check(dec(r) == a % (1 << n), f"resize down u {w}->{n} {a}")
                    else:
                        # numeric_std: sign bit kept, then the n-1 rightmost bits
                        bits = format(a & ((1 << w) - 1), f"0{w}b")
                        exp = bits[0] + bits[w - (n - 1):] if n > 1 else bits[0]
                        check(V.vec_to_str(r) == exp, f"resize down s {w}->{n} {a}")
                if signed:
                    check(dec(V.neg_s(A)) == wrap(-a, w, True), f"neg {w} {a}")
                    check(dec(V.abs_s(A)) == wrap(abs(a), w, True), f"abs {w} {a}")
                    check(V.to_integer_s(A) == a, f"to_integer s {a}")
                    check(dec(V.to_signed(a, w)) == a, f"to_signed {a}")
                else:
                    check(V.to_integer_u(A) == a, f"to_integer u {a}")
                    check(dec(V.to_unsigned(a, w)) == a, f"to_unsigned {a}")
    # metavalue propagation and errors
    check(V.add(V.vec_from_str("0U1"), enc(1, 3), False) == V.all_x(3), "add metavalue -> X")
    check(V.compare(V.vec_from_str("0X"), enc(1, 2), False, "=") is False, "= with metavalue is false")
    check(V.compare(V.vec_from_str("0X"), enc(1, 2), False, "/=") is True, "/= with metavalue is true")
    check(V.to_integer_u(V.vec_from_str("Z1")) == 0, "to_integer metavalue -> 0")
    for bad in (lambda: V.div(enc(1, 2), enc(0, 2), False), lambda: V.shift_left(enc(1, 2), -1, False),
                lambda: V.to_unsigned(-1, 3), lambda: V.addsub_int(enc(1, 2), -1, False, "+", False),
                lambda: V.compare_int(enc(1, 2), -1, False, "<"), lambda: V.to_integer_u(enc((1 << 32) - 1, 32))):
        try:
            bad()
            check(False, "expected a SimError")
        except V.SimError:
            pass
    # logic tables: and/or/xor on 0/1 and U dominance
    for a, b in itertools.product("01", repeat=2):
        ia, ib = V.CHAR2V[a], V.CHAR2V[b]
        check(V.CHARS[V.AND_T[ia][ib]] == str(int(a) & int(b)), "and")
        check(V.CHARS[V.OR_T[ia][ib]] == str(int(a) | int(b)), "or")
        check(V.CHARS[V.XOR_T[ia][ib]] == str(int(a) ^ int(b)), "xor")
    check(V.CHARS[V.AND_T[V.U][V.L0]] == "0" and V.CHARS[V.AND_T[V.U][V.L1]] == "U", "and U")
    check(V.CHARS[V.OR_T[V.U][V.L1]] == "1" and V.CHARS[V.OR_T[V.X][V.L0]] == "X", "or U/X")
    for t in (V.AND_T, V.OR_T, V.XOR_T, V.RESOLVE_T):
        for i in range(9):
            for j in range(9):
                check(t[i][j] == t[j][i], "table symmetric")
    return cnt


# ------------------------------------------------------------------ 2. static rules
HDR = "library ieee;\nuse ieee.std_logic_1164.all;\nuse ieee.numeric_std.all;\n"


def unit(ports, decls, body, name="e"):
    return (f"{HDR}entity {name} is\n  port (\n{ports}\n  );\nend {name};\n"
            f"architecture a of {name} is\n{decls}\nbegin\n{body}\nend architecture a;\n")


P = ("clk : in std_logic;\n a : in unsigned(3 downto 0);\n b : in signed(3 downto 0);\n v : in std_logic_vector(3 downto 0);\n"
     " s : in std_logic;\n o : out unsigned(3 downto 0);\n p : out std_logic;\n q : out std_logic_vector(7 downto 0)")

GOOD = [
    unit(P, "signal t : unsigned(3 downto 0);", "t <= (a) + (1);\n o <= t;\n p <= s;\n q <= (v) & (std_logic_vector(a));"),
    unit(P, "signal t : signed(7 downto 0) := signed'(\"00000000\");",
         "pr: process(clk)\n variable x : boolean;\n begin\n if rising_edge(clk) then\n x := (b < 0);\n if x then\n t <= resize(b, 8);\n else\n"
         " t <= signed(std_logic_vector(resize(a, 8)));\n end if;\n end if;\n end process;\n o <= unsigned(std_logic_vector(t(3 downto 0)));\n p <= '1';\n q <= std_logic_vector(t);"),
    unit(P, "type st is (s0, s1);\n signal x : st := s0;\n type arr is array(0 to 1) of unsigned(3 downto 0);\n signal m : arr := ( 0 => unsigned'(\"0000\"), 1 => unsigned'(\"0001\") );",
         "pr: process(clk)\n begin\n if rising_edge(clk) then\n case x is\n when s0 =>\n x <= s1;\n m(to_integer(a(0 downto 0))) <= a;\n when others =>\n x <= s0;\n end case;\n end if;\n end process;\n"
         " o <= m(0);\n p <= '0';\n with v select q <=\n \"00000000\" when \"0000\",\n \"11111111\" when others;"),
    unit(P, "", "c: process(a, b, s)\n variable t : boolean;\n begin\n t := s = '1';\n if t then\n o <= a;\n else\n o <= unsigned(std_logic_vector(b));\n end if;\n end process;\n p <= s;\n q <= (others => '0');"),
    unit(P, "", "o <= shift_right(a, to_integer(unsigned'(\"01\")));\n p <= s and (not s);\n q <= std_logic_vector(resize(unsigned(v), 8));"),
]

BAD = [  # (rule, text)
    ("S-type", unit(P, "", "o <= (a) + (b);\n p <= s;\n q <= (others => '0');")),            # unsigned + signed
    ("S-type", unit(P, "", "o <= -(a);\n p <= s;\n q <= (others => '0');")),                # unary minus on unsigned
    ("S-type", unit(P, "", "o <= a;\n p <= s;\n q <= (v) + (1);")),                          # slv arithmetic
    ("S-type", unit(P, "", "o <= unsigned(\"0000\");\n p <= s;\n q <= (others => '0');")),   # conversion of a literal
    ("S-type", unit(P, "", "o <= a;\n p <= a(0) = '1';\n q <= (others => '0');")),           # boolean to std_logic
    ("S-type", unit(P, "", "o <= v;\n p <= s;\n q <= (others => '0');")),                    # slv to unsigned without conversion
    ("S-width", unit(P, "", "o <= resize(a, 5);\n p <= s;\n q <= (others => '0');")),
    ("S-width", unit(P, "", "o <= a;\n p <= s;\n q <= (v) & (v) & (v);")),
    ("S-width", unit(P, "", "o <= a and \"00000\";\n p <= s;\n q <= (others => '0');")),
    ("S-mode", unit(P, "", "o <= a;\n p <= s;\n q <= std_logic_vector(resize(o, 8));")),     # out port read
    ("S-mode", unit(P, "", "o <= a;\n p <= s;\n q <= (others => '0');\n s <= '1';")),        # in port written
    ("S-dup", unit(P, "signal t : std_logic;\n signal T : std_logic;", "o <= a;\n p <= s;\n q <= (others => '0');")),
    ("S-dup", unit(P, "signal clk : std_logic;", "o <= a;\n p <= s;\n q <= (others => '0');")),  # port + signal
    ("S-dup", unit(P, "signal pr : std_logic;", "pr: process(clk)\n begin\n null;\n end process;\n o <= a;\n p <= s;\n q <= (others => '0');")),
    ("S-ident", unit(P, "signal _t : std_logic;", "o <= a;\n p <= s;\n q <= (others => '0');")),
    ("S-ident", unit(P, "signal t_ : std_logic;", "o <= a;\n p <= s;\n q <= (others => '0');")),
    ("S-ident", unit(P, "signal t__x : std_logic;", "o <= a;\n p <= s;\n q <= (others => '0');")),
    ("S-ident", unit(P, "signal signal : std_logic;", "o <= a;\n p <= s;\n q <= (others => '0');")),
    ("S-ident", unit(P.replace(" s : in", " type : in"), "", "o <= a;\n p <= type;\n q <= (others => '0');")),
    ("S-hide", unit(P, "signal unsigned : std_logic;\n signal t : unsigned(3 downto 0);", "o <= a;\n p <= s;\n q <= (others => '0');")),
    ("S-hide", unit(P, "signal resize : std_logic;", "o <= a;\n p <= s;\n q <= std_logic_vector(resize(a, 8));")),
    ("S-unres", unit(P, "", "o <= a;\n p <= nosuch;\n q <= (others => '0');")),
    ("S-unres", unit(P, "", "x: process(clk)\n variable t : std_logic;\n begin\n t := s;\n end process;\n o <= a;\n p <= t;\n q <= (others => '0');")),
    ("S-sens", unit(P, "", "x: process(a)\n begin\n o <= a;\n p <= s;\n end process;\n q <= (others => '0');")),
    ("S-choice", unit(P, "", "o <= a;\n p <= s;\n with v select q <=\n \"00000000\" when \"0000\",\n \"11111111\" when \"0001\";")),
    ("S-choice", unit(P, "", "x: process(v)\n begin\n case v is\n when \"0000\" =>\n p <= '0';\n when \"0000\" =>\n p <= '1';\n when others =>\n null;\n end case;\n end process;\n o <= a;\n q <= (others => '0');")),
    ("S-driver", unit(P, "", "x: process(clk)\n begin\n if rising_edge(clk) then\n p <= s;\n end if;\n end process;\n p <= '1';\n o <= a;\n q <= (others => '0');")),
    ("S-parse", unit(P, "", "o <= a;\n p <= s and s or s;\n q <= (others => '0');")),
    ("S-parse", unit(P, "", "o <= a * -1;\n p <= s;\n q <= (others => '0');")),
    ("S-struct", HDR + "entity top is\n port (\n x : in std_logic\n );\nend top;\narchitecture a of top is\nbegin\n i0: entity work.sub(a)\n port map(\n y => x\n );\nend architecture a;\n"),
]


def test_static():
    for k, text in enumerate(GOOD):
        d = analyse(text)
        check(d.unsupported is None and not d.errors, f"GOOD[{k}] flagged: {d.unsupported} {d.errors[:2]}")
        if d.ok:
            try:
                Sim(d)
            except Exception as e:  # noqa: BLE001
                check(False, f"GOOD[{k}] does not elaborate: {e}")
    for k, (rule, text) in enumerate(BAD):
        d = analyse(text)
        rules = d.error_rules()
        check(rule in rules, f"BAD[{k}] expected {rule}, got {rules} {d.unsupported}")
    # behaviour smoke test
    s = Sim(analyse(GOOD[1]))
    s.poke(clk=0, a=9, b=-3 & 15, v="0000", s=0)
    s.clock("clk")
    check(s.get("o") == 13 and s.get("q") == 0xFD, f"GOOD[1] negative branch: {s.get('o')} {s.get('q')}")
    s.poke(b=2)
    s.clock("clk")
    check(s.get("o") == 9 and s.get("q") == 9, f"GOOD[1] positive branch: {s.get('o')} {s.get('q')}")
    return len(GOOD) + len(BAD)


# ------------------------------------------------------------------ 3. corpus
TRIAGED = {"general__test_operations_01.vhd": "S-driver"}  # two concurrent drivers in one upstream test design


def test_corpus(quick):
    files = sorted(glob.glob(os.path.join(HERE, "golden", "*.vhd")))
    if quick:
        files = files[::9]
    n = 0
    for f in files:
        name = os.path.basename(f)
        d = analyse(open(f).read())
        n += 1
        if name in TRIAGED:
            check(d.error_rules() == [TRIAGED[name]], f"{name}: expected only {TRIAGED[name]}, got {d.error_rules()}")
            continue
        check(d.unsupported is None and not d.errors, f"corpus {name}: {d.unsupported} {d.errors[:2]}")
        if d.ok:
            try:
                Sim(d)
            except (Blocked, V.SimError) as e:
                check(False, f"corpus {name} does not elaborate: {e}")
    return n


def main():
    quick = "--quick" in sys.argv
    n1 = test_numeric(3 if quick else 4)
    n2 = test_static()
    n3 = test_corpus(quick)
    print(f"selftest: numeric cells {n1}, static cases {n2}, corpus files {n3}, failures {len(FAIL)}")
    return 1 if FAIL else 0


if __name__ == "__main__":
    sys.exit(main())
