"""Minimal stand-in for cocotb so the upstream reference designs import offline.
Only what is needed at *import/compile* time lives here; the run-time shim that drives
benches on cv.vhdl.Sim is selftest/cocotb_shim.py."""
import sys
import types


def install():
    if "cocotb" in sys.modules and getattr(sys.modules["cocotb"], "_cv_stub", False):
        return
    def mod(name):
        m = types.ModuleType(name)
        m._cv_stub = True
        sys.modules[name] = m
        return m

    cocotb = mod("cocotb")
    clock = mod("cocotb.clock")
    triggers = mod("cocotb.triggers")
    binary = mod("cocotb.binary")
    handle = mod("cocotb.handle")
    types_ = mod("cocotb.types")
    ct = mod("cocotb_test")
    sim = mod("cocotb_test.simulator")
    ct.simulator = sim
    cocotb.clock, cocotb.triggers, cocotb.binary, cocotb.handle, cocotb.types = clock, triggers, binary, handle, types_

    def test(*a, **k):
        if len(a) == 1 and callable(a[0]) and not k:
            a[0]._cocotb_test = True
            return a[0]
        def deco(fn):
            fn._cocotb_test = True
            return fn
        return deco

    cocotb.test = test
    cocotb.start_soon = lambda coro: coro
    cocotb.start = cocotb.start_soon

    class _T:
        def __init__(self, *a, **k):
            self.args, self.kw = a, k
    for n in ("RisingEdge", "FallingEdge", "Timer", "Edge", "ReadOnly", "ClockCycles", "First", "Combine", "Join", "NextTimeStep", "ReadWrite"):
        setattr(triggers, n, type(n, (_T,), {}))
    clock.Clock = type("Clock", (_T,), {})
    binary.BinaryValue = type("BinaryValue", (_T,), {})
    handle.SimHandleBase = object
    types_.LogicArray = type("LogicArray", (_T,), {})
    types_.Logic = type("Logic", (_T,), {})
    sim.run = lambda *a, **k: None
    for name in ("cocotbext", "cocotbext.axi", "cocotbext.spi", "cocotbext.uart"):
        m = mod(name)
        def _ga(attr, _T=_T):
            if attr.startswith("__"):
                raise AttributeError(attr)
            return type(attr, (_T,), {})
        m.__getattr__ = _ga
        m.__path__ = []
