"""A small cocotb look-alike on top of cv.vhdl.sim.Sim, sufficient to run the upstream
reference benches (written against ghdl) offline.  Used only for *calibrating* the VHDL
engine: every upstream bench that passes here is evidence that Sim agrees with ghdl.

Timing model: integer femtoseconds.  Value-change triggers (RisingEdge/FallingEdge/Edge)
fire right after the update phase of the delta in which the signal changed, i.e. before
the processes sensitive to it have run (like VPI cbValueChange); writes made by
coroutines are buffered and applied when all runnable coroutines have yielded.
"""
from __future__ import annotations

import heapq
import itertools
import sys
import types

sys.path.insert(0, "/verif")
from cv.vhdl import values as V  # noqa: E402
from cv.vhdl.sim import Sim  # noqa: E402

UNITS = {"fs": 1, "ps": 10 ** 3, "ns": 10 ** 6, "us": 10 ** 9, "ms": 10 ** 12, "sec": 10 ** 15, "step": 1, None: 1}


class BinaryValue:
    def __init__(self, value=None, n_bits=None, bigEndian=False, binaryRepresentation=0, binstr=None, signed=False):
        if binstr is not None:
            self.binstr = binstr
        elif isinstance(value, str):
            self.binstr = value
        elif isinstance(value, int):
            n = n_bits or max(1, value.bit_length())
            self.binstr = format(value & ((1 << n) - 1), f"0{n}b")
        else:
            self.binstr = "" if n_bits is None else "0" * n_bits
        self._signed = signed

    @property
    def is_resolvable(self):
        return all(c in "01LH" for c in self.binstr)

    @property
    def integer(self):
        if not self.is_resolvable:
            raise ValueError(f"Unresolvable bit in binary string: {self.binstr!r}")
        s = self.binstr.replace("L", "0").replace("H", "1")
        return int(s, 2) if s else 0

    value = integer

    @property
    def signed_integer(self):
        v = self.integer
        n = len(self.binstr)
        if n and v >= 1 << (n - 1):
            v -= 1 << n
        return v

    def get_value_signed(self):
        return self.signed_integer

    def get_value(self):
        return self.integer

    @property
    def n_bits(self):
        return len(self.binstr)

    def __len__(self):
        return len(self.binstr)

    def __int__(self):
        return self.integer

    def __index__(self):
        return self.integer

    def __bool__(self):
        return self.is_resolvable and self.integer != 0

    def __str__(self):
        return self.binstr

    def __repr__(self):
        return self.binstr

    def __eq__(self, other):
        if isinstance(other, BinaryValue):
            return self.binstr == other.binstr
        if isinstance(other, bool):
            return self.integer == int(other)
        if isinstance(other, int):
            if other < 0:
                return self.signed_integer == other
            return self.integer == other
        if isinstance(other, str):
            return self.binstr == other
        r = getattr(other, "__eq__")(self)
        return r

    def __ne__(self, other):
        return not self.__eq__(other)

    def __hash__(self):
        return hash(self.binstr)

    def __getitem__(self, i):
        # cocotb BinaryValue (little-endian default): index 0 is the LSB?  In cocotb 1.x
        # bigEndian=False means binstr[0] is the MSB and value[i] indexes from the left for
        # i in range(n) -> matches HDL "downto" index n-1-i.  Upstream benches do not rely on it.
        if isinstance(i, slice):
            return BinaryValue(binstr=self.binstr[i])
        return BinaryValue(binstr=self.binstr[i])

    def __lt__(self, o):
        return self.integer < int(o)

    def __and__(self, o):
        return self.integer & int(o)

    def __or__(self, o):
        return self.integer | int(o)

    def __xor__(self, o):
        return self.integer ^ int(o)

    def __add__(self, o):
        return self.integer + int(o)

    def __sub__(self, o):
        return self.integer - int(o)

    def __rshift__(self, o):
        return self.integer >> int(o)

    def __lshift__(self, o):
        return self.integer << int(o)

    def __invert__(self):
        return ~self.integer


class Handle:
    """simulation object handle (signal or element of an array signal)"""

    def __init__(self, env, sig, path=(), ty=None, name=""):
        object.__setattr__(self, "_env", env)
        object.__setattr__(self, "_sig", sig)
        object.__setattr__(self, "_path", path)
        object.__setattr__(self, "_ty", ty or sig.ty)
        object.__setattr__(self, "_name", name)

    def _raw(self):
        v = self._sig.cur
        for p in self._path:
            v = v[p]
        return v

    def get_definition_name(self):
        return self._name

    @property
    def _path_name(self):
        return self._name

    @property
    def value(self):
        ty, v = self._ty, self._raw()
        if ty.kind == "sl":
            return BinaryValue(binstr=V.CHARS[v])
        if ty.kind == "array" and ty.elem.kind == "sl":
            return BinaryValue(binstr=V.vec_to_str(v), signed=ty.base == "signed")
        if ty.kind == "bool":
            return bool(v)
        if ty.kind in ("int", "enum"):
            return v
        if ty.kind == "array":
            return [Handle(self._env, self._sig, self._path + (i,), ty.elem, f"{self._name}[{i}]").value for i in range(ty.length)]
        raise TypeError(ty)

    @value.setter
    def value(self, val):
        self._env.writes.append((self, val))

    def setimmediatevalue(self, val):
        self._env.writes.append((self, val))

    def _apply(self, val):
        ty = self._ty
        sim = self._env.sim
        if isinstance(val, BinaryValue):
            val = val.binstr if not val.is_resolvable else val.integer
        if hasattr(val, "value") and not isinstance(val, (int, str)):
            val = int(val.value)
        if isinstance(val, bool):
            val = int(val)
        enc = sim._encode(ty, val)
        s = self._sig
        if self._path:
            def upd(old, path):
                if not path:
                    return enc
                return old[:path[0]] + (upd(old[path[0]], path[1:]),) + old[path[0] + 1:]
            s.drv = upd(s.drv, self._path)
        else:
            s.drv = enc
        sim.active.add(s)

    def __len__(self):
        return self._ty.length if self._ty.kind == "array" else 1

    def __getitem__(self, i):
        ty = self._ty
        if ty.kind != "array":
            raise IndexError(self._name)
        pos = ty.index_pos(i)
        return Handle(self._env, self._sig, self._path + (pos,), ty.elem, f"{self._name}[{i}]")

    def __iter__(self):
        ty = self._ty
        l, d, r = ty.rng
        rng = range(l, r - 1, -1) if d == "downto" else range(l, r + 1)
        for i in rng:
            yield self[i]

    def __eq__(self, other):
        if isinstance(other, Handle):
            return self is other
        return self.value == other

    def __ne__(self, other):
        return not self.__eq__(other)

    def __hash__(self):
        return id(self)

    def __int__(self):
        return int(self.value)

    def __index__(self):
        return int(self.value)

    def __le__(self, val):  # cocotb's deprecated "dut.sig <= value"
        self.value = val

    def __str__(self):
        return self._name

    def __setattr__(self, k, v):
        if k == "value":
            return type(self).value.fset(self, v)
        object.__setattr__(self, k, v)


class Dut:
    def __init__(self, env):
        object.__setattr__(self, "_env", env)
        object.__setattr__(self, "_handles", {})

    def __getattr__(self, name):
        env = self._env
        h = self._handles.get(name)
        if h is None:
            low = name.lower()
            if low in env.sim.ports:
                sig = env.sim.ports[low]
            else:
                sig = env.sim.find("." + low)
            h = Handle(env, sig, (), sig.ty, name)
            self._handles[name] = h
        return h

    def __setattr__(self, name, val):
        # dut.sig = value is not valid cocotb; dut.sig.value = v is used.  Support <<= style rebinding
        if isinstance(val, Handle):
            return
        getattr(self, name).value = val

    def _log(self, *a, **k):
        pass


# ------------------------------------------------------------------ triggers
class Trigger:
    def __await__(self):
        return (yield self)


class Timer(Trigger):
    def __init__(self, time=1, units="step", **kw):
        if "time_ps" in kw:
            time, units = kw["time_ps"], "ps"
        self.delay = max(1, int(round(time * UNITS[units])))


class _EdgeBase(Trigger):
    kind = "any"

    def __init__(self, handle):
        self.handle = handle


class RisingEdge(_EdgeBase):
    kind = "rise"


class FallingEdge(_EdgeBase):
    kind = "fall"


class Edge(_EdgeBase):
    kind = "any"


class ReadOnly(Trigger):
    pass


class ReadWrite(Trigger):
    pass


class NextTimeStep(Trigger):
    pass


class ClockCycles(Trigger):
    def __init__(self, handle, n, rising=True):
        self.handle, self.n, self.rising = handle, n, rising


class Combine(Trigger):
    def __init__(self, *t):
        self.triggers = t


class First(Trigger):
    def __init__(self, *t):
        self.triggers = t


class Join(Trigger):
    def __init__(self, task):
        self.task = task


class Task:
    _ids = itertools.count()

    def __init__(self, coro):
        self.coro = coro
        self.done = False
        self.result = None
        self.exc = None
        self.id = next(Task._ids)
        self.joiners = []
        self.killed = False

    def kill(self):
        self.killed = True
        self.done = True

    def __await__(self):
        if not self.done:
            yield Join(self)
        if self.exc:
            raise self.exc
        return self.result

    def join(self):
        return Join(self)


class Clock:
    def __init__(self, signal, period, units="step"):
        self.signal = signal
        self.half = max(1, int(round(period * UNITS[units])) // 2)

    async def start(self, cycles=None, start_high=True):
        hi, lo = (1, 0) if start_high else (0, 1)
        while True:
            self.signal.value = hi
            await Timer(self.half, "fs")
            self.signal.value = lo
            await Timer(self.half, "fs")


class TestFailure(Exception):
    pass


class Env:
    """scheduler for one bench on one Sim"""

    def __init__(self, sim):
        self.sim = sim
        self.now = 0
        self.writes = []
        self.ready = []      # tasks to resume (task, value to send)
        self.timers = []     # heap of (time, seq, task)
        self.edge_waiters = {}  # id(sig) -> list of (task, kind, path, countdown)
        self.seq = itertools.count()
        self.dut = Dut(self)
        self.max_time = 10 ** 13

    def start_soon(self, coro):
        if isinstance(coro, Task):
            return coro
        t = Task(coro)
        self.ready.append(t)
        return t

    # ---- running
    def _step_task(self, t):
        if t.done:
            return
        try:
            trig = t.coro.send(None)
        except StopIteration as e:
            t.done, t.result = True, e.value
            for j in t.joiners:
                self.ready.append(j)
            return
        except BaseException as e:  # noqa: BLE001
            t.done, t.exc = True, e
            for j in t.joiners:
                self.ready.append(j)
            if t is self.main:
                return
            # exception in a forked task fails the test
            self.failure = e
            return
        self._arm(t, trig)

    def _arm(self, t, trig):
        if isinstance(trig, Timer):
            heapq.heappush(self.timers, (self.now + trig.delay, next(self.seq), t))
        elif isinstance(trig, _EdgeBase):
            h = trig.handle
            self.edge_waiters.setdefault(id(h._sig), []).append([t, trig.kind, h, 1])
        elif isinstance(trig, ClockCycles):
            h = trig.handle
            self.edge_waiters.setdefault(id(h._sig), []).append([t, "rise" if trig.rising else "fall", h, trig.n])
        elif isinstance(trig, (ReadOnly, ReadWrite, NextTimeStep)):
            heapq.heappush(self.timers, (self.now + (1 if isinstance(trig, NextTimeStep) else 0), next(self.seq), t))
        elif isinstance(trig, Join):
            if trig.task.done:
                self.ready.append(t)
            else:
                trig.task.joiners.append(t)
        elif isinstance(trig, Task):
            if trig.done:
                self.ready.append(t)
            else:
                trig.joiners.append(t)
        elif isinstance(trig, (First, Combine)):
            raise NotImplementedError("First/Combine")
        elif hasattr(trig, "__await__") or hasattr(trig, "send"):
            sub = self.start_soon(trig)
            sub.joiners.append(t)
        else:
            raise NotImplementedError(f"trigger {trig!r}")

    def _run_ready(self):
        while self.ready:
            batch, self.ready = self.ready, []
            for t in batch:
                if not t.killed:
                    self._step_task(t)

    def _settle(self):
        """apply buffered writes and run delta cycles; value-change triggers fire after each update phase."""
        sim = self.sim
        while True:
            if self.writes:
                ws, self.writes = self.writes, []
                for h, v in ws:
                    h._apply(v)
            if not sim.active:
                break
            n = 0
            while sim.active:
                n += 1
                if n > sim.MAX_DELTAS:
                    raise V.SimError("delta_overflow", "combinational loop")
                sim.cur_id += 1
                cid = sim.cur_id
                run = {}
                act, sim.active = sim.active, set()
                woken = []
                for s in act:
                    if s.drv != s.cur:
                        old = s.cur
                        s.last, s.cur, s.event_id = s.cur, s.drv, cid
                        for p in s.fanout:
                            run[p.order] = p
                        ws_ = self.edge_waiters.get(id(s))
                        if ws_:
                            keep = []
                            for w in ws_:
                                t, kind, h, cnt = w
                                ov, nv = old, s.cur
                                for p in h._path:
                                    ov, nv = ov[p], nv[p]
                                if ov == nv:
                                    keep.append(w)
                                    continue
                                fire = kind == "any"
                                if h._ty.kind == "sl":
                                    o1, n1 = V.TO_X01[ov], V.TO_X01[nv]
                                    if kind == "rise":
                                        fire = n1 == V.L1 and o1 != V.L1
                                    elif kind == "fall":
                                        fire = n1 == V.L0 and o1 != V.L0
                                if fire:
                                    w[3] -= 1
                                    if w[3] <= 0:
                                        woken.append(t)
                                    else:
                                        keep.append(w)
                                else:
                                    keep.append(w)
                            self.edge_waiters[id(s)] = keep
                # value-change callbacks run before the processes of this delta
                if woken:
                    self.ready.extend(woken)
                    self._run_ready()
                for k in sorted(run):
                    p = run[k]
                    p.fn(p.ctx)
            sim.cur_id += 1
            if not self.writes and not self.ready:
                break
            self._run_ready()

    def run(self, coro):
        self.failure = None
        self.main = Task(coro)
        self.ready.append(self.main)
        while True:
            self._run_ready()
            self._settle()
            if self.failure is not None:
                raise self.failure
            if self.main.done:
                if self.main.exc:
                    raise self.main.exc
                return self.main.result
            if self.ready:
                continue
            if not self.timers:
                raise TestFailure("deadlock: test coroutine waits for something that never happens")
            tm = self.timers[0][0]
            if tm > self.max_time:
                raise TestFailure("simulation time limit")
            self.now = tm
            while self.timers and self.timers[0][0] == tm:
                _, _, t = heapq.heappop(self.timers)
                self.ready.append(t)


_current_env = None


def install(env_getter=None):
    """install shim modules as `cocotb`, `cocotb.clock`, ... in sys.modules."""
    def mod(name):
        m = types.ModuleType(name)
        m._cv_shim = True
        sys.modules[name] = m
        return m

    cocotb = mod("cocotb")
    clock = mod("cocotb.clock")
    triggers = mod("cocotb.triggers")
    binary = mod("cocotb.binary")
    handle = mod("cocotb.handle")
    ctypes_ = mod("cocotb.types")
    result = mod("cocotb.result")
    ct = mod("cocotb_test")
    simm = mod("cocotb_test.simulator")
    ct.simulator = simm
    cocotb.clock, cocotb.triggers, cocotb.binary, cocotb.handle, cocotb.types, cocotb.result = clock, triggers, binary, handle, ctypes_, result

    def test(*a, **k):
        if len(a) == 1 and callable(a[0]) and not k:
            a[0]._cocotb_test = True
            a[0]._cocotb_opts = {}
            return a[0]

        def deco(fn):
            fn._cocotb_test = True
            fn._cocotb_opts = k
            return fn
        return deco

    cocotb.test = test

    def start_soon(coro):
        return _current_env.start_soon(coro)

    async def start(coro):
        return _current_env.start_soon(coro)

    cocotb.start_soon = start_soon
    cocotb.start = start
    cocotb.fork = start_soon
    for cls in (Timer, RisingEdge, FallingEdge, Edge, ReadOnly, ReadWrite, NextTimeStep, ClockCycles, Combine, First, Join):
        setattr(triggers, cls.__name__, cls)
    clock.Clock = Clock
    binary.BinaryValue = BinaryValue
    handle.SimHandleBase = Handle
    result.TestFailure = TestFailure
    simm.run = lambda *a, **k: None
    for name in ("cocotbext", "cocotbext.axi", "cocotbext.spi", "cocotbext.uart"):
        m = mod(name)

        def _ga(attr):
            if attr.startswith("__"):
                raise AttributeError(attr)
            return type(attr, (), {"__init__": lambda self, *a, **k: (_ for _ in ()).throw(NotImplementedError("cocotbext"))})
        m.__getattr__ = _ga
        m.__path__ = []


def run_test(vhdl_or_design, top, test_fn, seed=0):
    """run one cocotb test coroutine against a design; raises on failure."""
    global _current_env
    import random
    random.seed(seed)
    sim = Sim(vhdl_or_design, top)
    env = Env(sim)
    _current_env = env
    try:
        return env.run(test_fn(env.dut)), sim
    finally:
        _current_env = None
