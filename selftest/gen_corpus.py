#!/venv/bin/python
"""Freeze the VHDL of the upstream reference designs (run once at the pinned commit).
Output: selftest/golden/<group>__<module>.vhd and selftest/golden/index.json"""
import contextlib, importlib, io, json, os, sys, traceback, unittest
HERE = os.path.dirname(os.path.abspath(__file__))
sys.path.insert(0, HERE)
sys.path.insert(0, "/repo/tests")
sys.path.insert(0, "/repo")
import cocotb_stub
cocotb_stub.install()
from cohdl import std
from cohdl_testutil import cocotb_util

captured = []
def fake_run(entity, file, module, **kw):
    # compile immediately: parametrised benches change module globals between calls
    captured.append((entity, module, kw, std.VhdlCompiler.to_string(entity)))
cocotb_util.run_cocotb_tests = fake_run

index = {}
base = "/repo/tests/reference_builds"
mods = []
for dp, dn, fns in sorted(os.walk(base)):
    dn.sort()
    if "test_build" in dp or "test_sim" in dp:
        continue
    for fn in sorted(fns):
        if fn.startswith("test_") and fn.endswith(".py"):
            rel = os.path.relpath(os.path.join(dp, fn[:-3]), base)
            mods.append(rel)
for rel in mods:
    if True:
        modname = "reference_builds." + rel.replace(os.sep, ".")
        key = rel.replace(os.sep, "__")
        buf = io.StringIO()
        try:
            with contextlib.redirect_stdout(buf), contextlib.redirect_stderr(buf):
                m = importlib.import_module(modname)
                captured.clear()
                for name in dir(m):
                    obj = getattr(m, name)
                    if isinstance(obj, type) and issubclass(obj, unittest.TestCase):
                        inst = obj()
                        for tn in dir(obj):
                            if tn.startswith("test"):
                                getattr(inst, tn)()
                ents = []
                for k, (entity, module, kw, vhdl) in enumerate(captured):
                    out = f"{key}__{k}.vhd" if len(captured) > 1 else f"{key}.vhd"
                    open(os.path.join(HERE, "golden", out), "w").write(vhdl)
                    ents.append({"file": out, "top": entity.__name__, "kw": {a: repr(b) for a, b in kw.items()}})
            index[key] = {"module": modname, "entities": ents}
        except BaseException as e:
            index[key] = {"module": modname, "error": f"{type(e).__name__}: {e}"[:300]}
json.dump(index, open(os.path.join(HERE, "golden", "index.json"), "w"), indent=1, sort_keys=True)
ok = sum(1 for v in index.values() if "entities" in v and v["entities"])
print("modules", len(index), "compiled", ok, "errors", sum(1 for v in index.values() if "error" in v))
for k, v in index.items():
    if "error" in v: print("  ", k, v["error"][:150])
